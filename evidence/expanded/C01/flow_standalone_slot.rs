// Verus unit: flow::StandaloneStatSlot::on_entry_pass for ANY controller list (C01: "admitted tokens are recorded once
// into every private window and never into reused ones").
// The body is extracted from the current source on every run. Controllers, their statistics and the context are
// abstract stand-ins with assumed contracts; WriteStat::add_count appends to a ghost trace.
use vstd::prelude::*;
verus! {
pub mod tr {
use vstd::prelude::*;
use std::sync::Arc;

pub enum MetricEvent { Pass, Block, Complete, Error, Rt }
#[verifier::external_body] pub struct WriteMetric { _p: u8 }
#[verifier::external_body] pub struct StandaloneStat { _p: u8 }
#[verifier::external_body] pub struct Controller { _p: u8 }
#[verifier::external_body] pub struct ResourceWrapper { _p: u8 }
#[verifier::external_body] pub struct SentinelInput { _p: u8 }
#[verifier::external_body] pub struct EntryContext { _p: u8 }

/// one call of WriteStat::add_count on a private window
pub struct Ev { pub window: int, pub event: MetricEvent, pub n: u64 }
pub type Trace = Ghost<Seq<Ev>>;

impl WriteMetric {
    pub uninterp spec fn id(&self) -> int;
    #[verifier::external_body] pub fn add_count(&self, Tracked(tr): Tracked<&mut Trace>, event: MetricEvent, n: u64)
        ensures final(tr)@ == old(tr)@.push(Ev { window: self.id(), event, n }) { unimplemented!() }
}
impl StandaloneStat {
    pub uninterp spec fn reuse(&self) -> bool;
    pub uninterp spec fn window(&self) -> Arc<WriteMetric>;
    #[verifier::external_body] pub fn reuse_global(&self) -> (r: bool) ensures r == self.reuse() { unimplemented!() }
    /// type invariant of StandaloneStat assumed here (all construction sites in flow::rule_manager satisfy it):
    /// a private window exists exactly when the global one is not reused
    #[verifier::external_body] pub fn write_only_metric(&self) -> (r: Option<&Arc<WriteMetric>>)
        ensures r is Some == !self.reuse(), r is Some ==> *r->Some_0 == self.window() { unimplemented!() }
}
impl Controller {
    pub uninterp spec fn stat_spec(&self) -> Arc<StandaloneStat>;
    #[verifier::external_body] pub fn stat(&self) -> (r: &Arc<StandaloneStat>) ensures *r == self.stat_spec() { unimplemented!() }
}
impl SentinelInput {
    pub uninterp spec fn batch(&self) -> u32;
    #[verifier::external_body] pub fn batch_count(&self) -> (r: u32) ensures r == self.batch() { unimplemented!() }
}
impl ResourceWrapper {
    pub uninterp spec fn name_of(&self) -> &String;
    #[verifier::external_body] pub fn name(&self) -> (r: &String) ensures r == self.name_of() { unimplemented!() }
}
impl EntryContext {
    pub uninterp spec fn name_spec(&self) -> &String;
    pub uninterp spec fn inp(&self) -> SentinelInput;
    #[verifier::external_body] pub fn resource(&self) -> (r: &ResourceWrapper) ensures r.name_of() == self.name_spec() { unimplemented!() }
    #[verifier::external_body] pub fn input(&self) -> (r: &SentinelInput) ensures *r == self.inp() { unimplemented!() }
}
pub uninterp spec fn list_for(name: &String) -> Seq<Arc<Controller>>;
#[verifier::external_body]
pub fn get_traffic_controller_list_for(name: &String) -> (r: Vec<Arc<Controller>>) ensures r@ == list_for(name) { unimplemented!() }

/// after the first k controllers: add_count(Pass, batch) once per private window, in list order, nothing else
pub open spec fn expected(tcs: Seq<Arc<Controller>>, batch: u32, k: int) -> Seq<Ev> decreases k {
    if k <= 0 { Seq::empty() } else {
        let prev = expected(tcs, batch, k - 1);
        if tcs[k - 1].stat_spec().reuse() { prev }
        else { prev.push(Ev { window: tcs[k - 1].stat_spec().window().id(), event: MetricEvent::Pass, n: batch as u64 }) }
    }
}
} // mod tr
use tr::*;
use std::sync::Arc;

pub struct StandaloneStatSlot {}
impl StandaloneStatSlot {
// ---- extracted from core/flow/standalone_stat_slot.rs (extract-fn) ----
    fn on_entry_pass(&self, Tracked(tr): Tracked<&mut Trace>, ctx: &EntryContext)
    requires
        old(tr)@.len() == 0,
    ensures
        final(tr)@ =~= expected(list_for(ctx.name_spec()), ctx.inp().batch(), list_for(ctx.name_spec()).len() as int),
{
        let res = ctx.resource().name();
        let input = ctx.input();
        let tcs = get_traffic_controller_list_for(res);
        for tc in it: tcs 
        invariant
            it.seq() == list_for(ctx.name_spec()),
            tr@ =~= expected(list_for(ctx.name_spec()), ctx.inp().batch(), it.index@),
            *input == ctx.inp(),
    {
            if !tc.stat().reuse_global() {
                tc.stat()
                    .write_only_metric()
                    .unwrap()
                    .add_count(Tracked(tr), MetricEvent::Pass, input.batch_count() as u64);
            }
        }
    }

}

proof fn verif_canary() { assert(false); }

} // verus!
fn main() {}
