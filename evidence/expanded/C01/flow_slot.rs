// Verus unit: the flow slot's and the hotspot slot's walk over a resource's traffic controllers (C07 "the calling thread is actually held",
// C01 "rejected iff some rule rejects" for the flow slot).
// The bodies of <flow::Slot as RuleCheckSlot>::check and <hotspot::Slot as RuleCheckSlot>::check are extracted from the current source on every run. What the slot
// calls is declared here with assumed contracts (see the evidence file): the two effectful callees append to a ghost
// trace (`tr`, erased at compile time), which is how "what was slept, when" becomes visible to the postcondition.
use vstd::prelude::*;
verus! {
pub mod tr {
use vstd::prelude::*;

pub enum Verdict { Pass, Blocked, Wait(u64) }
pub enum Ev { Check { ctl: int, batch: u32, v: Verdict }, Sleep(u64) }

pub open spec fn dur(e: Ev) -> nat { match e { Ev::Sleep(w) => w as nat, _ => 0 } }
pub open spec fn owed(e: Ev) -> nat { match e { Ev::Check { v: Verdict::Wait(w), .. } => w as nat, _ => 0 } }
/// nanoseconds slept during the first n events of t
pub open spec fn slept(t: Seq<Ev>, n: int) -> nat decreases n {
    if n <= 0 { 0 } else { slept(t, n - 1) + dur(t[n - 1]) }
}
pub broadcast proof fn lemma_slept_push(t: Seq<Ev>, e: Ev, n: int)
    requires 0 <= n <= t.len(),
    ensures #[trigger] slept(t.push(e), n) == slept(t, n),
    decreases n,
{
    if n > 0 { lemma_slept_push(t, e, n - 1); }
}
/// every consulted controller that answered Wait(w) is followed by at least w ns of sleeping
pub open spec fn held(t: Seq<Ev>) -> bool {
    forall|j: int| 0 <= j < t.len() ==> owed(#[trigger] t[j]) <= slept(t, t.len() as int) - slept(t, j + 1)
}
pub broadcast proof fn lemma_held_push(t: Seq<Ev>, e: Ev)
    requires held(t), owed(e) == 0,
    ensures #[trigger] held(t.push(e)),
{
    broadcast use lemma_slept_push;
    let t1 = t.push(e);
    assert(slept(t1, t1.len() as int) == slept(t1, t.len() as int) + dur(t1[t.len() as int]));
    assert forall|j: int| 0 <= j < t1.len() implies owed(#[trigger] t1[j]) <= slept(t1, t1.len() as int) - slept(t1, j + 1) by {
        if j < t.len() { assert(t1[j] == t[j]); }
    }
}
pub broadcast proof fn lemma_held_push_wait_sleep(t: Seq<Ev>, c: Ev, s: Ev)
    requires held(t), owed(s) == 0, dur(c) == 0, dur(s) >= owed(c),
    ensures #[trigger] held(t.push(c).push(s)),
{
    broadcast use lemma_slept_push;
    let t1 = t.push(c);
    let t2 = t1.push(s);
    assert(slept(t2, t2.len() as int) == slept(t2, t1.len() as int) + dur(s));
    assert(slept(t1, t1.len() as int) == slept(t1, t.len() as int) + dur(c));
    assert forall|j: int| 0 <= j < t2.len() implies owed(#[trigger] t2[j]) <= slept(t2, t2.len() as int) - slept(t2, j + 1) by {
        if j < t.len() { assert(t2[j] == t[j]); }
    }
}
/// number of Check events among the first n events of t
pub open spec fn nchecks(t: Seq<Ev>, n: int) -> nat decreases n {
    if n <= 0 { 0 } else { nchecks(t, n - 1) + if t[n - 1] is Check { 1nat } else { 0nat } }
}
pub broadcast proof fn lemma_nchecks_push(t: Seq<Ev>, e: Ev, n: int)
    requires 0 <= n <= t.len(),
    ensures #[trigger] nchecks(t.push(e), n) == nchecks(t, n),
    decreases n,
{
    if n > 0 { lemma_nchecks_push(t, e, n - 1); }
}
/// number of Check events in t
pub open spec fn consulted(t: Seq<Ev>) -> nat { nchecks(t, t.len() as int) }
pub broadcast proof fn lemma_consulted_push(t: Seq<Ev>, e: Ev)
    ensures #[trigger] consulted(t.push(e)) == consulted(t) + if e is Check { 1nat } else { 0nat },
{
    broadcast use lemma_nchecks_push;
    let t1 = t.push(e);
    assert(nchecks(t1, t1.len() as int) == nchecks(t1, t.len() as int) + if t1[t.len() as int] is Check { 1nat } else { 0nat });
}
/// the k-th Check event asks the k-th controller of the list, with the caller's batch, and none of them blocked
pub open spec fn in_order(t: Seq<Ev>, ids: Seq<int>, batch: u32) -> bool {
    forall|j: int| 0 <= j < t.len() ==> match #[trigger] t[j] {
        Ev::Check { ctl, batch: b, v } => nchecks(t, j) < ids.len() && ctl == ids[nchecks(t, j) as int] && b == batch && !(v is Blocked),
        Ev::Sleep(_) => true,
    }
}
pub broadcast proof fn lemma_in_order_push_check(t: Seq<Ev>, ids: Seq<int>, batch: u32, e: Ev)
    requires in_order(t, ids, batch), nchecks(t, t.len() as int) < ids.len(),
        e == (Ev::Check { ctl: ids[nchecks(t, t.len() as int) as int], batch, v: e->v }), !(e->v is Blocked), e is Check,
    ensures #[trigger] in_order(t.push(e), ids, batch), nchecks(t.push(e), t.push(e).len() as int) == nchecks(t, t.len() as int) + 1,
{
    broadcast use lemma_nchecks_push;
    let t1 = t.push(e);
    assert forall|j: int| 0 <= j < t1.len() implies match #[trigger] t1[j] {
        Ev::Check { ctl, batch: b, v } => nchecks(t1, j) < ids.len() && ctl == ids[nchecks(t1, j) as int] && b == batch && !(v is Blocked),
        Ev::Sleep(_) => true,
    } by {
        if j < t.len() { assert(t1[j] == t[j]); }
    }
    assert(nchecks(t1, t1.len() as int) == nchecks(t1, t.len() as int) + 1);
}
pub broadcast proof fn lemma_in_order_push_sleep(t: Seq<Ev>, ids: Seq<int>, batch: u32, e: Ev)
    requires in_order(t, ids, batch), e is Sleep,
    ensures #[trigger] in_order(t.push(e), ids, batch), nchecks(t.push(e), t.push(e).len() as int) == nchecks(t, t.len() as int),
{
    broadcast use lemma_nchecks_push;
    let t1 = t.push(e);
    assert forall|j: int| 0 <= j < t1.len() implies match #[trigger] t1[j] {
        Ev::Check { ctl, batch: b, v } => nchecks(t1, j) < ids.len() && ctl == ids[nchecks(t1, j) as int] && b == batch && !(v is Blocked),
        Ev::Sleep(_) => true,
    } by {
        if j < t.len() { assert(t1[j] == t[j]); }
    }
    assert(nchecks(t1, t1.len() as int) == nchecks(t1, t.len() as int) + 0);
}
/// every consultation so far carried the caller's batch and none of them blocked (used where controllers may be skipped)
pub open spec fn calm(t: Seq<Ev>, batch: u32) -> bool {
    forall|j: int| 0 <= j < t.len() ==> match #[trigger] t[j] {
        Ev::Check { batch: b, v, .. } => b == batch && !(v is Blocked),
        Ev::Sleep(_) => true,
    }
}
pub broadcast proof fn lemma_calm_push(t: Seq<Ev>, batch: u32, e: Ev)
    requires calm(t, batch), e is Sleep || (e is Check && e->batch == batch && !(e->v is Blocked)),
    ensures #[trigger] calm(t.push(e), batch),
{
    let t1 = t.push(e);
    assert forall|j: int| 0 <= j < t1.len() implies match #[trigger] t1[j] {
        Ev::Check { batch: b, v, .. } => b == batch && !(v is Blocked),
        Ev::Sleep(_) => true,
    } by {
        if j < t.len() { assert(t1[j] == t[j]); }
    }
}
} // mod tr
pub mod flow {
use vstd::prelude::*;
use super::tr::*;
use std::sync::Arc;
broadcast use {super::tr::lemma_held_push, super::tr::lemma_held_push_wait_sleep, super::tr::lemma_in_order_push_check, super::tr::lemma_in_order_push_sleep, super::tr::lemma_consulted_push};
// ---- abstract stand-ins for the types the slot touches (declared, not extracted) ----
#[verifier::external_body] pub struct BlockError { _p: u8 }
pub enum TokenResult { Pass, Blocked(BlockError), Wait(u64) }
pub open spec fn verdict_of(r: TokenResult) -> Verdict {
    match r { TokenResult::Pass => Verdict::Pass, TokenResult::Blocked(_) => Verdict::Blocked, TokenResult::Wait(w) => Verdict::Wait(w) }
}
#[verifier::external_body] pub struct Controller { _p: u8 }
#[verifier::external_body] pub struct Node { _p: u8 }
#[verifier::external_body] pub struct ResourceWrapper { _p: u8 }
#[verifier::external_body] pub struct SentinelInput { _p: u8 }
#[verifier::external_body] pub struct EntryContext { _p: u8 }
pub uninterp spec fn ctl_id(c: Arc<Controller>) -> int;
impl SentinelInput {
    pub uninterp spec fn batch(&self) -> u32;
    #[verifier::external_body] pub fn batch_count(&self) -> (r: u32) ensures r == self.batch() { unimplemented!() }
}
impl ResourceWrapper {
    pub uninterp spec fn name_of(&self) -> &String;
    #[verifier::external_body] pub fn name(&self) -> (r: &String) ensures r == self.name_of() { unimplemented!() }
}
impl TokenResult {
    #[verifier::external_body] pub fn clone(&self) -> (r: TokenResult) ensures r == *self { unimplemented!() }
}
impl EntryContext {
    pub uninterp spec fn res(&self) -> TokenResult;
    pub uninterp spec fn inp(&self) -> SentinelInput;
    pub uninterp spec fn name_spec(&self) -> &String;
    #[verifier::external_body] pub fn resource(&self) -> (r: &ResourceWrapper) ensures r.name_of() == self.name_spec() { unimplemented!() }
    #[verifier::external_body] pub fn stat_node(&self) -> (r: Option<Arc<Node>>) { unimplemented!() }
    #[verifier::external_body] pub fn input(&self) -> (r: &SentinelInput) ensures *r == self.inp() { unimplemented!() }
    #[verifier::external_body] pub fn result(&self) -> (r: &TokenResult) ensures *r == self.res() { unimplemented!() }
    #[verifier::external_body] pub fn set_result(&mut self, r: TokenResult)
        ensures final(self).res() == r, final(self).inp() == old(self).inp(), final(self).name_spec() == old(self).name_spec() { unimplemented!() }
}
pub uninterp spec fn list_for(name: &String) -> Seq<Arc<Controller>>;
pub open spec fn ids_of(l: Seq<Arc<Controller>>) -> Seq<int> { Seq::new(l.len(), |i: int| ctl_id(l[i])) }
#[verifier::external_body]
fn get_traffic_controller_list_for(name: &String) -> (r: Vec<Arc<Controller>>) ensures r@ == list_for(name) { unimplemented!() }
#[verifier::external_body]
fn can_pass_check(Tracked(tr): Tracked<&mut Ghost<Seq<Ev>>>, tc: Arc<Controller>, node: Option<Arc<Node>>, batch_count: u32) -> (r: TokenResult)
    ensures final(tr)@ == old(tr)@.push(Ev::Check { ctl: ctl_id(tc), batch: batch_count, v: verdict_of(r) })
{ unimplemented!() }
#[verifier::external_body]
fn sleep_for_ns(Tracked(tr): Tracked<&mut Ghost<Seq<Ev>>>, ns: u64)
    ensures final(tr)@ == old(tr)@.push(Ev::Sleep(ns))
{ unimplemented!() }


pub struct Slot {}
impl Slot {
// ---- extracted from core/flow/slot.rs (extract-fn) ----
    fn check(&self, ctx: &mut EntryContext, Tracked(tr): Tracked<&mut Ghost<Seq<Ev>>>) -> (r: TokenResult)
    requires
        old(tr)@.len() == 0,
    ensures
        held(final(tr)@),
        final(ctx).inp() == old(ctx).inp(),
        r is Blocked && !(old(ctx).res() is Blocked) ==> final(tr)@.len() > 0 && (final(tr)@.last() matches Ev::Check { v: Verdict::Blocked, .. }) && in_order(final(tr)@.drop_last(), ids_of(list_for(old(ctx).name_spec())), old(ctx).inp().batch()) && final(ctx).res() == r,
        !(r is Blocked) ==> in_order(final(tr)@, ids_of(list_for(old(ctx).name_spec())), old(ctx).inp().batch()) && consulted(final(tr)@) == list_for(old(ctx).name_spec()).len() && r == old(ctx).res(),
{
        let res = ctx.resource().name();
        let stat_node = ctx.stat_node();
        let input = ctx.input();
        let tcs = get_traffic_controller_list_for(res);
        for tc in it: tcs 
        invariant
            held(tr@),
            in_order(tr@, ids_of(list_for(old(ctx).name_spec())), old(ctx).inp().batch()),
            consulted(tr@) == it.index@,
            it.seq() == list_for(old(ctx).name_spec()),
            *ctx == *old(ctx),
            *input == old(ctx).inp(),
    {
            let ghost t0 = tr@;
        let r = can_pass_check(Tracked(tr), tc, stat_node.clone(), input.batch_count());
            match r {
                TokenResult::Pass => {}
                TokenResult::Blocked(_) => {
                    proof { assert(tr@.drop_last() =~= t0); }
        ctx.set_result(r);
                    return ctx.result().clone();
                }
                TokenResult::Wait(nanos_to_wait) => {
                    sleep_for_ns(Tracked(tr), nanos_to_wait);
                }
            }
        }
        return ctx.result().clone();
    }

}

} // mod flow

pub mod hotspot {
use vstd::prelude::*;
use super::tr::*;
use std::sync::Arc;
broadcast use {super::tr::lemma_held_push, super::tr::lemma_held_push_wait_sleep, super::tr::lemma_calm_push};
// ---- abstract stand-ins for the types the hotspot slot touches (declared, not extracted) ----
#[verifier::external_body] pub struct BlockError { _p: u8 }
pub enum TokenResult { Pass, Blocked(BlockError), Wait(u64) }
pub open spec fn verdict_of(r: TokenResult) -> Verdict {
    match r { TokenResult::Pass => Verdict::Pass, TokenResult::Blocked(_) => Verdict::Blocked, TokenResult::Wait(w) => Verdict::Wait(w) }
}
#[verifier::external_body] pub struct Controller { _p: u8 }
#[verifier::external_body] pub struct ParamKey { _p: u8 }
#[verifier::external_body] pub struct ResourceWrapper { _p: u8 }
#[verifier::external_body] pub struct SentinelInput { _p: u8 }
#[verifier::external_body] pub struct EntryContext { _p: u8 }
impl SentinelInput {
    pub uninterp spec fn batch(&self) -> u32;
    #[verifier::external_body] pub fn batch_count(&self) -> (r: u32) ensures r == self.batch() { unimplemented!() }
}
impl ResourceWrapper {
    #[verifier::external_body] pub fn name(&self) -> (r: &String) { unimplemented!() }
}
impl TokenResult {
    #[verifier::external_body] pub fn clone(&self) -> (r: TokenResult) ensures r == *self { unimplemented!() }
}
impl EntryContext {
    pub uninterp spec fn res(&self) -> TokenResult;
    pub uninterp spec fn inp(&self) -> SentinelInput;
    #[verifier::external_body] pub fn resource(&self) -> (r: &ResourceWrapper) { unimplemented!() }
    #[verifier::external_body] pub fn input(&self) -> (r: &SentinelInput) ensures *r == self.inp() { unimplemented!() }
    #[verifier::external_body] pub fn result(&self) -> (r: &TokenResult) ensures *r == self.res() { unimplemented!() }
    #[verifier::external_body] pub fn set_result(&mut self, r: TokenResult)
        ensures final(self).res() == r, final(self).inp() == old(self).inp() { unimplemented!() }
}
impl Controller {
    pub uninterp spec fn id(&self) -> int;
    #[verifier::external_body] pub fn extract_args(&self, ctx: &EntryContext) -> (r: Option<ParamKey>) { unimplemented!() }
    #[verifier::external_body]
    pub fn perform_checking(&self, Tracked(tr): Tracked<&mut Ghost<Seq<Ev>>>, arg: ParamKey, batch_count: u32) -> (r: TokenResult)
        ensures final(tr)@ == old(tr)@.push(Ev::Check { ctl: self.id(), batch: batch_count, v: verdict_of(r) })
    { unimplemented!() }
}
#[verifier::external_body]
fn get_traffic_controller_list_for(name: &String) -> (r: Vec<Arc<Controller>>) { unimplemented!() }
#[verifier::external_body]
fn sleep_for_ns(Tracked(tr): Tracked<&mut Ghost<Seq<Ev>>>, ns: u64)
    ensures final(tr)@ == old(tr)@.push(Ev::Sleep(ns))
{ unimplemented!() }

pub struct Slot {}
impl Slot {
// ---- extracted from core/hotspot/slot.rs (extract-fn) ----
    fn check(&self, ctx: &mut EntryContext, Tracked(tr): Tracked<&mut Ghost<Seq<Ev>>>) -> (r: TokenResult)
    requires
        old(tr)@.len() == 0,
    ensures
        held(final(tr)@),
        final(ctx).inp() == old(ctx).inp(),
        r is Blocked && !(old(ctx).res() is Blocked) ==> final(tr)@.len() > 0 && (final(tr)@.last() matches Ev::Check { v: Verdict::Blocked, .. }) && calm(final(tr)@.drop_last(), old(ctx).inp().batch()) && final(ctx).res() == r,
        !(r is Blocked) ==> calm(final(tr)@, old(ctx).inp().batch()) && r == old(ctx).res(),
{
        let res = ctx.resource().name();
        let batch = ctx.input().batch_count();
        let tcs = get_traffic_controller_list_for(res);
        for tc in it: tcs 
        invariant
            held(tr@),
            calm(tr@, old(ctx).inp().batch()),
            *ctx == *old(ctx),
            batch == old(ctx).inp().batch(),
    {
            let extracted = tc.extract_args(ctx);
            if let Some(arg) = extracted {
                let ghost t0 = tr@;
        let r = tc.perform_checking(Tracked(tr), arg, batch);
                match r {
                    TokenResult::Pass => {}
                    TokenResult::Blocked(_) => {
                        proof { assert(tr@.drop_last() =~= t0); }
        ctx.set_result(r);
                        return ctx.result().clone();
                    }
                    TokenResult::Wait(nanos_to_wait) => {
                        sleep_for_ns(Tracked(tr), nanos_to_wait);
                    }
                }
            }
        }
        return ctx.result().clone();
    }

}
} // mod hotspot

proof fn verif_canary() { assert(false); }

} // verus!
fn main() {}
