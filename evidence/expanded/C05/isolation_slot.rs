// Verus unit: isolation::slot::can_pass_check for ANY number of rules (C05: "admitted exactly when in-flight + n <= T",
// "the rejection names the rule that triggered it").
// The body is extracted from the current source on every run; the rule struct is extracted too (two fields kept).
// The statistics node, the context and the rule table are abstract stand-ins with assumed contracts.
use vstd::prelude::*;
verus! {
use std::sync::Arc;

#[derive(Structural, PartialEq, Eq, Clone, Copy)]
pub enum MetricType { Concurrency }

// ---- extracted from core/isolation/rule.rs (extract-struct) ----
pub struct Rule {
    pub metric_type: MetricType,
    pub threshold: u32,
}


pub type Snapshot = u32;
#[verifier::external_body] pub struct Node { _p: u8 }
#[verifier::external_body] pub struct SentinelInput { _p: u8 }
#[verifier::external_body] pub struct EntryContext { _p: u8 }
impl Node {
    /// the resource's in-flight entries (an atomic load in the real node; sequential execution)
    pub uninterp spec fn inflight(&self) -> u32;
    #[verifier::external_body] pub fn current_concurrency(&self) -> (r: u32) ensures r == self.inflight() { unimplemented!() }
}
impl SentinelInput {
    pub uninterp spec fn batch(&self) -> u32;
    #[verifier::external_body] pub fn batch_count(&self) -> (r: u32) ensures r == self.batch() { unimplemented!() }
}
impl EntryContext {
    pub uninterp spec fn node(&self) -> Option<Arc<Node>>;
    pub uninterp spec fn inp(&self) -> SentinelInput;
    #[verifier::external_body] pub fn stat_node(&self) -> (r: Option<Arc<Node>>) ensures r == self.node() { unimplemented!() }
    #[verifier::external_body] pub fn input(&self) -> (r: &SentinelInput) ensures *r == self.inp() { unimplemented!() }
}
pub uninterp spec fn rules_of(res: &String) -> Seq<Arc<Rule>>;
#[verifier::external_body]
fn get_rules_of_resource(res: &String) -> (r: Vec<Arc<Rule>>) ensures r@ == rules_of(res) { unimplemented!() }

/// rule i admits a batch of n on top of c in-flight entries
pub open spec fn admits(rule: Arc<Rule>, c: u32, n: u32) -> bool {
    rule.metric_type == MetricType::Concurrency ==> c + n <= rule.threshold
}

// ---- extracted from core/isolation/slot.rs (extract-fn) ----
fn can_pass_check(
    ctx: &EntryContext,
    res: &String,
) -> (out: (bool, Option<Arc<Rule>>, Option<Arc<Snapshot>>))
    requires
        ctx.node() is Some,
        ctx.node()->Some_0.inflight() + ctx.inp().batch() <= u32::MAX,
    ensures
        out.0 == (forall|i: int| 0 <= i < rules_of(res).len() ==> admits(#[trigger] rules_of(res)[i], ctx.node()->Some_0.inflight(), ctx.inp().batch())),
        out.0 ==> out.1 is None && out.2 is None,
        !out.0 ==> out.1 is Some && out.2 is Some && *out.2->Some_0 == ctx.node()->Some_0.inflight(),
        !out.0 ==> exists|k: int| 0 <= k < rules_of(res).len() && out.1->Some_0 == #[trigger] rules_of(res)[k] && !admits(rules_of(res)[k], ctx.node()->Some_0.inflight(), ctx.inp().batch()) && (forall|i: int| 0 <= i < k ==> admits(#[trigger] rules_of(res)[i], ctx.node()->Some_0.inflight(), ctx.inp().batch())),
{
    let stat_node = ctx.stat_node().unwrap();
    let batch_count = ctx.input().batch_count();
    for rule in it: get_rules_of_resource(res) 
        invariant
            it.seq() == rules_of(res),
            forall|i: int| 0 <= i < it.index@ ==> admits(#[trigger] rules_of(res)[i], ctx.node()->Some_0.inflight(), ctx.inp().batch()),
            stat_node.inflight() == ctx.node()->Some_0.inflight(),
            batch_count == ctx.inp().batch(),
            stat_node.inflight() + batch_count <= u32::MAX,
    {
        let threshold = rule.threshold;
        if rule.metric_type == MetricType::Concurrency {
            let curr_count = stat_node.current_concurrency();
            // if pass `batch_count` tasks in the `ctx`, the limits on concurrency would break
            if curr_count + batch_count > threshold {
                return (false, Some(rule), Some(Arc::new(curr_count)));
            }
        }
    }
    (true, None, None)
}


proof fn verif_canary() { assert(false); }

} // verus!
fn main() {}
