// Verus unit: flow::rule_manager::build_resource_traffic_shaping_controller for ANY number of rules and ANY old controller
// list (C11: a re-loaded rule that is unchanged keeps its very controller object - and with it its state; a changed rule gets a
// new controller, built over the statistic of the first statistics-reusable old controller; consumed old controllers leave the
// old list so that no controller is handed out twice).
// The body is extracted from the current source on every run. Rules, controllers, statistics, the generator table and its
// generators are abstract stand-ins with assumed contracts; `calculate_reuse_index_for` is extracted and proved too (any list
// length; rule equality and statistics-reusability enter as uninterpreted predicates, decided field-wise by Kani).
use vstd::prelude::*;
verus! {
pub mod tr {
use vstd::prelude::*;
use std::sync::Arc;
#[derive(Debug)] pub struct Error { _p: u8 }
pub type Result<T> = std::result::Result<T, Error>;
#[derive(Clone, Copy)] pub struct CalculateStrategy { pub c: u8 }
#[derive(Clone, Copy)] pub struct ControlStrategy { pub c: u8 }
/// the fields of flow::Rule this function reads; everything else is behind `rule_eq` / `stat_reusable`
pub struct Rule { pub id: String, pub resource: String, pub calculate_strategy: CalculateStrategy, pub control_strategy: ControlStrategy, pub rest: u64 }
#[verifier::external_body] pub struct StandaloneStat { _p: u8 }
#[verifier::external_body] pub struct Controller { _p: u8 }
pub struct ControllerGenKey { pub calculate_strategy: CalculateStrategy, pub control_strategy: ControlStrategy }
#[verifier::external_body] pub struct Generator { _p: u8 }
#[verifier::external_body] pub struct GenMap { _p: u8 }
pub struct GenMapLock { pub p: u8 }
#[verifier::external_body] pub struct GenMapGuard { _p: u8 }

pub type AC = Arc<Controller>;

/// `old_rule == r` of flow::Rule (PartialEq, proved field-wise by Kani `fr_eq_and_reusable`)
pub uninterp spec fn rule_eq(old: Arc<Rule>, r: Arc<Rule>) -> bool;
pub uninterp spec fn stat_reusable(old: Arc<Rule>, r: Arc<Rule>) -> bool;
pub uninterp spec fn same_res(res: &String, r: &Arc<Rule>) -> bool;
/// `res != &rule.resource`
#[verifier::external_body] pub fn res_differs(res: &String, r: &Arc<Rule>) -> (b: bool) ensures b == !same_res(res, r) { unimplemented!() }

impl Rule {
    /// the real Rule's query methods a rewrite of this function could consult (results unconstrained)
    pub uninterp spec fn need_statistic_spec(&self) -> bool;
    #[verifier::external_body] pub fn need_statistic(&self) -> (b: bool) ensures b == self.need_statistic_spec() { unimplemented!() }
}
impl Controller {
    pub uninterp spec fn rule_spec(&self) -> Arc<Rule>;
    pub uninterp spec fn stat_spec(&self) -> Arc<StandaloneStat>;
    #[verifier::external_body] pub fn stat(&self) -> (r: &Arc<StandaloneStat>) ensures *r == self.stat_spec() { unimplemented!() }
    #[verifier::external_body] pub fn rule(&self) -> (r: &Arc<Rule>) ensures *r == self.rule_spec() { unimplemented!() }
}
/// `old_rule == r` (PartialEq of Arc<Rule> = PartialEq of Rule)
#[verifier::external_body] pub fn rules_equal(a: &Arc<Rule>, b: &Arc<Rule>) -> (r: bool) ensures r == rule_eq(*a, *b) { unimplemented!() }
/// `old_rule.is_stat_reusable(r)`
#[verifier::external_body] pub fn is_stat_reusable(a: &Arc<Rule>, b: &Arc<Rule>) -> (r: bool) ensures r == stat_reusable(*a, *b) { unimplemented!() }
/// stands for `.iter().enumerate()` (no Verus support): the idx-th element by reference
#[verifier::external_body] pub fn nth_tc(v: &Vec<AC>, i: usize) -> (r: &AC) requires i < v.len() ensures *r == v@[i as int] { &v[i] }
impl ControllerGenKey {
    pub fn new(calculate_strategy: CalculateStrategy, control_strategy: ControlStrategy) -> (r: Self)
        ensures r.calculate_strategy == calculate_strategy, r.control_strategy == control_strategy
    { ControllerGenKey { calculate_strategy, control_strategy } }
}
/// the generator table is only read here (sequential execution: nobody registers a generator during a reload)
pub uninterp spec fn table(k: ControllerGenKey) -> Option<Generator>;
/// a generator is a function of its arguments (the default ones are `Controller::new(rule, stat-or-fresh)` wrapped in a checker)
pub uninterp spec fn gen_result(g: Generator, r: Arc<Rule>, s: Option<Arc<StandaloneStat>>) -> Result<AC>;
impl Generator {
    #[verifier::external_body] pub fn call(&self, r: Arc<Rule>, s: Option<Arc<StandaloneStat>>) -> (res: Result<AC>)
        ensures res == gen_result(*self, r, s) { unimplemented!() }
}
impl GenMapLock {
    #[verifier::external_body] pub fn read(&self) -> (r: Result<GenMapGuard>) ensures r is Ok { unimplemented!() }
}
impl GenMapGuard {
    #[verifier::external_body] pub fn get(&self, k: &ControllerGenKey) -> (r: Option<&Generator>)
        ensures (r is None) == (table(*k) is None), r is Some ==> *r->Some_0 == table(*k)->Some_0 { unimplemented!() }
}
/// `.unwrap()` of the lock result: must be provably Ok (lock poisoning is excluded by the contract of `read`)
#[verifier::external_body] pub fn unwrap_guard(r: Result<GenMapGuard>) -> (g: GenMapGuard) requires r is Ok { unimplemented!() }

pub const MAX: usize = usize::MAX;
/// first index of an old controller whose rule equals `r`, MAX if none
pub open spec fn eq_index(r: Arc<Rule>, old: Seq<AC>, k: int) -> int decreases old.len() - k {
    if k < 0 || k >= old.len() { MAX as int } else if rule_eq(old[k].rule_spec(), r) { k } else { eq_index(r, old, k + 1) }
}
/// first statistics-reusable index strictly before `bound`, MAX if none
pub open spec fn reuse_index(r: Arc<Rule>, old: Seq<AC>, k: int, bound: int) -> int decreases old.len() - k {
    if k < 0 || k >= old.len() || k >= bound { MAX as int } else if stat_reusable(old[k].rule_spec(), r) { k } else { reuse_index(r, old, k + 1, bound) }
}
pub proof fn l_eq_index(r: Arc<Rule>, old: Seq<AC>, k: int)
    requires 0 <= k, old.len() < MAX
    ensures ({ let e = eq_index(r, old, k); e == MAX as int || (k <= e < old.len() && rule_eq(old[e].rule_spec(), r)) }),
            forall|i: int| #![auto] k <= i < old.len() && (eq_index(r, old, k) == MAX as int || i < eq_index(r, old, k)) ==> !rule_eq(old[i].rule_spec(), r)
    decreases old.len() - k
{ if k < old.len() && !rule_eq(old[k].rule_spec(), r) { l_eq_index(r, old, k + 1); } }
pub proof fn l_reuse_index(r: Arc<Rule>, old: Seq<AC>, k: int, bound: int)
    requires 0 <= k, old.len() < MAX
    ensures ({ let e = reuse_index(r, old, k, bound); e == MAX as int || (k <= e < old.len() && e < bound && stat_reusable(old[e].rule_spec(), r)) })
    decreases old.len() - k
{ if k < old.len() && k < bound && !stat_reusable(old[k].rule_spec(), r) { l_reuse_index(r, old, k + 1, bound); } }

/// characterisation => recursive definition (used by the extracted calculate_reuse_index_for)
pub proof fn l_eq_char(r: Arc<Rule>, old: Seq<AC>, k: int, e: int)
    requires 0 <= k <= e <= old.len(), old.len() < MAX,
             forall|j: int| #![auto] k <= j < e ==> !rule_eq(old[j].rule_spec(), r),
             e < old.len() ==> rule_eq(old[e].rule_spec(), r),
    ensures eq_index(r, old, k) == (if e < old.len() { e } else { MAX as int })
    decreases e - k
{ if k < e { l_eq_char(r, old, k + 1, e); } }
pub proof fn l_reuse_char(r: Arc<Rule>, old: Seq<AC>, k: int, bound: int, e: int)
    requires 0 <= k, old.len() < MAX, k <= e,
             forall|j: int| #![auto] k <= j < e && j < old.len() && j < bound ==> !stat_reusable(old[j].rule_spec(), r),
             (e < old.len() && e < bound && stat_reusable(old[e].rule_spec(), r)) || e >= old.len() || e >= bound,
    ensures reuse_index(r, old, k, bound) == (if e < old.len() && e < bound { e } else { MAX as int })
    decreases e - k
{ if k < e && k < old.len() && k < bound { l_reuse_char(r, old, k + 1, bound, e); } }

/// what handling one rule does to (new list, remaining old list)
pub open spec fn step(res: &String, rule: Arc<Rule>, st: (Seq<AC>, Seq<AC>)) -> (Seq<AC>, Seq<AC>) {
    let (new, old) = st;
    if !same_res(res, &rule) { st } else {
        let eq = eq_index(rule, old, 0);
        let ru = reuse_index(rule, old, 0, eq);
        if eq != MAX as int { (new.push(old[eq]), old.remove(eq)) }
        else {
            match table(ControllerGenKey { calculate_strategy: rule.calculate_strategy, control_strategy: rule.control_strategy }) {
                None => st,
                Some(g) => match gen_result(g, rule, if ru != MAX as int { Some(old[ru].stat_spec()) } else { None }) {
                    Err(_) => st,
                    Ok(tc) => (new.push(tc), if ru != MAX as int { old.remove(ru) } else { old }),
                },
            }
        }
    }
}
pub open spec fn run(res: &String, rules: Seq<Arc<Rule>>, k: int, old0: Seq<AC>) -> (Seq<AC>, Seq<AC>) decreases k {
    if k <= 0 { (Seq::empty(), old0) } else { step(res, rules[k - 1], run(res, rules, k - 1, old0)) }
}
pub proof fn l_run_len(res: &String, rules: Seq<Arc<Rule>>, k: int, old0: Seq<AC>)
    requires 0 <= k <= rules.len(), old0.len() < MAX
    ensures run(res, rules, k, old0).1.len() <= old0.len(), run(res, rules, k, old0).0.len() <= k
    decreases k
{
    if k > 0 {
        l_run_len(res, rules, k - 1, old0);
        let st = run(res, rules, k - 1, old0);
        l_eq_index(rules[k - 1], st.1, 0);
        l_reuse_index(rules[k - 1], st.1, 0, eq_index(rules[k - 1], st.1, 0));
    }
}

/// C11 at the level of one rule: an unchanged rule (some remaining old controller carries an equal rule) gets that very
/// controller - the first such - and the controller leaves the old list (it is not torn down, not handed out twice);
/// no generator is consulted, so no state is rebuilt.
pub proof fn l_c11_unchanged_rule_keeps_controller(res: &String, rule: Arc<Rule>, new: Seq<AC>, old: Seq<AC>, i: int)
    requires same_res(res, &rule), 0 <= i < old.len(), old.len() < MAX, rule_eq(old[i].rule_spec(), rule)
    ensures ({ let (n2, o2) = step(res, rule, (new, old));
               let e = eq_index(rule, old, 0);
               0 <= e <= i && n2 == new.push(old[e]) && rule_eq(old[e].rule_spec(), rule) && o2 == old.remove(e) })
{ l_eq_index(rule, old, 0); let e = eq_index(rule, old, 0); if e == MAX as int || i < e { assert(!rule_eq(old[i].rule_spec(), rule)); } }

/// a changed rule (no remaining old controller carries an equal rule) whose strategy has a generator gets what the generator
/// builds over the statistic of the first statistics-reusable old controller (or a fresh one): applied at once.
pub proof fn l_c11_changed_rule_gets_new_controller(res: &String, rule: Arc<Rule>, new: Seq<AC>, old: Seq<AC>, g: Generator)
    requires same_res(res, &rule), old.len() < MAX,
             forall|i: int| #![auto] 0 <= i < old.len() ==> !rule_eq(old[i].rule_spec(), rule),
             table(ControllerGenKey { calculate_strategy: rule.calculate_strategy, control_strategy: rule.control_strategy }) == Some(g),
    ensures ({ let (n2, o2) = step(res, rule, (new, old));
               let ru = reuse_index(rule, old, 0, MAX as int);
               let s = if ru != MAX as int { Some(old[ru].stat_spec()) } else { None };
               match gen_result(g, rule, s) { Ok(tc) => n2 == new.push(tc), Err(_) => n2 == new && o2 == old } })
{
    l_eq_index(rule, old, 0);
    assert(eq_index(rule, old, 0) == MAX as int) by {
        let e = eq_index(rule, old, 0);
        if e != MAX as int { assert(rule_eq(old[e].rule_spec(), rule)); }
    }
}

/// stands for the by-reference iteration `for rule in rules_of_res` over the set in SOME order (Verus for-loops do not support
/// `continue`, and std's HashSet iteration has no specification): the idx-th element of that order
#[verifier::external_body]
pub fn nth_rule(v: &Vec<Arc<Rule>>, i: usize) -> (r: &Arc<Rule>) requires i < v.len() ensures *r == v@[i as int] { &v[i] }
} // mod tr
use tr::*;
use std::sync::Arc;

pub exec static GEN_FUN_MAP: GenMapLock ensures true { GenMapLock { p: 0 } }

// ---- extracted from core/flow/rule_manager.rs (extract-fn) ----
fn calculate_reuse_index_for(r: &Arc<Rule>, old_res_tcs: &Vec<Arc<Controller>>) -> (res: (usize, usize))
    requires
        old_res_tcs@.len() < MAX,
    ensures
        res.0 as int == eq_index(*r, old_res_tcs@, 0),
        res.1 as int == reuse_index(*r, old_res_tcs@, 0, eq_index(*r, old_res_tcs@, 0)),
{
    // the index of equivalent rule in old traffic shaping controller slice
    let mut eq_idx = usize::MAX;
    // the index of statistic reusable rule in old traffic shaping controller slice
    let mut reuse_stat_idx = usize::MAX;

    let mut nxt: usize = 0; while nxt < old_res_tcs.len() 
        invariant_except_break
            eq_idx == MAX,

        invariant
            nxt <= old_res_tcs.len(),
            old_res_tcs@.len() < MAX,
            eq_idx != MAX ==> eq_idx < nxt,
            forall|j: int| #![auto] 0 <= j < nxt && (eq_idx == MAX || j < eq_idx) ==> !rule_eq(old_res_tcs@[j].rule_spec(), *r),
            reuse_stat_idx == MAX ==> forall|j: int| #![auto] 0 <= j < nxt && (eq_idx == MAX || j < eq_idx) ==> !stat_reusable(old_res_tcs@[j].rule_spec(), *r),
            reuse_stat_idx != MAX ==> reuse_stat_idx < nxt && (eq_idx == MAX || reuse_stat_idx < eq_idx) && stat_reusable(old_res_tcs@[reuse_stat_idx as int].rule_spec(), *r) && forall|j: int| #![auto] 0 <= j < reuse_stat_idx ==> !stat_reusable(old_res_tcs@[j].rule_spec(), *r),
        ensures
            eq_idx != MAX ==> eq_idx < old_res_tcs.len() && rule_eq(old_res_tcs@[eq_idx as int].rule_spec(), *r),
            eq_idx == MAX ==> nxt == old_res_tcs.len(),
        decreases old_res_tcs.len() - nxt,
    { let idx = nxt; let old_tc = nth_tc(old_res_tcs, idx); nxt += 1;
        let old_rule = old_tc.rule();
        if rules_equal(old_rule, r) {
            // break if there is equivalent rule
            eq_idx = idx;
            break;
        }
        // search the index of first stat reusable rule
        if reuse_stat_idx == usize::MAX && is_stat_reusable(old_rule, r) {
            reuse_stat_idx = idx;
        }
    }
    proof { let e = if eq_idx == MAX { old_res_tcs@.len() as int } else { eq_idx as int }; l_eq_char(*r, old_res_tcs@, 0, e); let bound = eq_index(*r, old_res_tcs@, 0); let q = if reuse_stat_idx == MAX { old_res_tcs@.len() as int } else { reuse_stat_idx as int }; l_reuse_char(*r, old_res_tcs@, 0, bound, q); }
        (eq_idx, reuse_stat_idx)
}


// ---- extracted from core/flow/rule_manager.rs (extract-fn) ----
pub fn build_resource_traffic_shaping_controller(
    res: &String,
    rules_of_res: &Vec<Arc<Rule>>,
    old_res_tcs: &mut Vec<Arc<Controller>>,
) -> (r: Vec<Arc<Controller>>)
    requires
        old(old_res_tcs)@.len() < MAX,
    ensures
        (r@, final(old_res_tcs)@) == run(res, rules_of_res@, rules_of_res@.len() as int, old(old_res_tcs)@),
{
    let mut new_res_tcs = Vec::with_capacity(rules_of_res.len());
    let mut idx: usize = 0; while idx < rules_of_res.len() 
        invariant
            idx <= rules_of_res.len(),
            old_res_tcs@.len() < MAX,
            (new_res_tcs@, old_res_tcs@) == run(res, rules_of_res@, idx as int, old(old_res_tcs)@),
        decreases rules_of_res.len() - idx,
    { let rule = nth_rule(rules_of_res, idx); idx += 1;
        if res_differs(res, rule) {
            
            continue;
        }
        let (eq_idx, reuse_stat_idx) = calculate_reuse_index_for(rule, &*old_res_tcs);
        proof { l_eq_index(*rule, old_res_tcs@, 0); l_reuse_index(*rule, old_res_tcs@, 0, eq_index(*rule, old_res_tcs@, 0)); }

        // First check equals scenario
        if eq_idx != usize::MAX {
            // reuse the old tc
            let eq_old_tc = Arc::clone(&old_res_tcs[eq_idx]);
            new_res_tcs.push(eq_old_tc);
            // remove old tc from old_res_tcs
            old_res_tcs.remove(eq_idx);
            continue;
        }

        let gen_fun_map = unwrap_guard(GEN_FUN_MAP.read());
        let key = ControllerGenKey::new(rule.calculate_strategy, rule.control_strategy);
        let generator = gen_fun_map.get(&key);

        if generator.is_none() {
            
            continue;
        }
        let generator = generator.unwrap();

        let tc = {
            if reuse_stat_idx != usize::MAX {
                generator.call(
                    Arc::clone(rule),
                    Some(Arc::clone(old_res_tcs[reuse_stat_idx].stat())),
                )
            } else {
                generator.call(Arc::clone(rule), None)
            }
        };

        if tc.is_err() {
            
            continue;
        }
        let tc = tc.unwrap();
        if reuse_stat_idx != usize::MAX {
            // remove old tc from old_res_tcs
            old_res_tcs.remove(reuse_stat_idx);
        }
        new_res_tcs.push(tc);
    }
    new_res_tcs
}


proof fn verif_canary() { assert(false); }

} // verus!
fn main() {}
