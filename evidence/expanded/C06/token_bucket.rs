// Verus unit (lemmas only): the per-call relation that the Kani obligations hr_do_check_d* prove on the real
// hotspot::RejectChecker::do_check preserves the token-bucket bound of C06 for EVERY history.
// D = duration in ms, q = threshold, b = burst; TB is the state of one parameter value.
use vstd::prelude::*;
verus! {

pub struct TB { pub present: bool, pub last: int, pub rest: int, pub first: int, pub admitted: int }

pub open spec fn inv(s: TB, q: int, b: int, dd: int) -> bool {
    (!s.present ==> s.admitted == 0)
    && (s.present ==> (s.rest >= 0 && s.last >= s.first
        && (s.admitted + s.rest) * dd <= (q + b) * dd + q * (s.last - s.first)))
}

pub open spec fn step(s: TB, t: TB, now: int, n: int, q: int, b: int, dd: int, pass: bool) -> bool {
    if q == 0 || n > q + b { !pass && t == s }
    else if !s.present { pass && t == TB { present: true, last: now, rest: q + b - n, first: now, admitted: n } }
    else if now - s.last > dd {
        let to_add = (now - s.last) * q / dd;
        let nw = if to_add + s.rest > q + b { q + b - n } else { to_add + s.rest - n };
        if nw < 0 { !pass && t == s } else { pass && t == TB { last: now, rest: nw, admitted: s.admitted + n, ..s } }
    } else {
        if s.rest >= n { pass && t == TB { rest: s.rest - n, admitted: s.admitted + n, ..s } } else { !pass && t == s }
    }
}

pub proof fn lemma_initial(q: int, b: int, dd: int)
    ensures inv(TB { present: false, last: 0, rest: 0, first: 0, admitted: 0 }, q, b, dd),
{
}

pub proof fn lemma_step_preserves(s: TB, t: TB, now: int, n: int, q: int, b: int, dd: int, pass: bool)
    requires inv(s, q, b, dd), step(s, t, now, n, q, b, dd, pass), q >= 0, b >= 0, dd > 0, n >= 0,
             s.present ==> now >= s.last,
    ensures inv(t, q, b, dd),
            t.present ==> t.last <= now || t.last == s.last,
            pass ==> t.admitted == s.admitted + n,
            !pass ==> t.admitted == s.admitted,
{
    if q == 0 || n > q + b {
    } else if !s.present {
        assert((n + (q + b - n)) * dd == (q + b) * dd) by(nonlinear_arith);
    } else if now - s.last > dd {
        let to_add = (now - s.last) * q / dd;
        assert((now - s.last) * q >= 0) by(nonlinear_arith) requires now - s.last > 0, q >= 0;
        assert(to_add * dd <= (now - s.last) * q) by(nonlinear_arith)
            requires to_add == (now - s.last) * q / dd, dd > 0, (now - s.last) * q >= 0;
        let nw = if to_add + s.rest > q + b { q + b - n } else { to_add + s.rest - n };
        if nw >= 0 {
            assert((s.admitted + n + nw) * dd <= (s.admitted + s.rest) * dd + to_add * dd) by(nonlinear_arith)
                requires nw + n <= to_add + s.rest, dd > 0;
            assert(q * (now - s.first) == q * (s.last - s.first) + (now - s.last) * q) by(nonlinear_arith);
        }
    } else {
        if s.rest >= n {
            assert((s.admitted + n + (s.rest - n)) * dd == (s.admitted + s.rest) * dd) by(nonlinear_arith);
        }
    }
}

/// the bound of the property at any time t >= last:  admitted <= q + b + q*(t-first)/D
pub proof fn lemma_bound(s: TB, q: int, b: int, dd: int, t: int)
    requires inv(s, q, b, dd), s.present, t >= s.last, q >= 0, dd > 0,
    ensures s.admitted * dd <= (q + b) * dd + q * (t - s.first),
{
    assert(s.admitted * dd <= (s.admitted + s.rest) * dd) by(nonlinear_arith) requires s.rest >= 0, dd > 0;
    assert(q * (s.last - s.first) <= q * (t - s.first)) by(nonlinear_arith) requires t >= s.last, q >= 0;
}

/// a rejection happens only in the three "insufficient" situations of the statement
pub proof fn lemma_reject_only_when_insufficient(s: TB, t: TB, now: int, n: int, q: int, b: int, dd: int)
    requires step(s, t, now, n, q, b, dd, false), q >= 0, b >= 0, dd > 0, n >= 0,
    ensures q == 0 || n > q + b || (s.present && (
        (now - s.last > dd && (if (now - s.last) * q / dd + s.rest > q + b { q + b } else { (now - s.last) * q / dd + s.rest }) < n)
        || (now - s.last <= dd && s.rest < n))),
{
}

proof fn verif_canary() { assert(false); }

} // verus!
fn main() {}
