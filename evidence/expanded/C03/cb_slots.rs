// Verus unit: the circuit-breaker slot's walk (circuitbreaker::slot::can_pass_check) and the circuit-breaker statistic
// slot (MetricStatSlot::on_completed) for ANY number of breakers on a resource (C03: every breaker of the resource sees
// every admission attempt until one rejects, and every completion).
// Bodies extracted from the current source on every run; breakers, context and the breaker table are abstract
// stand-ins with assumed contracts; try_pass / on_request_complete append to a ghost trace.
use vstd::prelude::*;
verus! {
pub mod tr {
use vstd::prelude::*;
use std::sync::Arc;

#[verifier::external_body] pub struct Rule { _p: u8 }
#[verifier::external_body] pub struct Breaker { _p: u8 }
#[verifier::external_body] pub struct ResourceWrapper { _p: u8 }
#[verifier::external_body] pub struct EntryContext { _p: u8 }
#[verifier::external_body] pub struct Error { _p: u8 }

pub enum Ev {
    TryPass { breaker: int, admitted: bool },
    Complete { breaker: int, rt: u64 },
}
pub type Trace = Ghost<Seq<Ev>>;

impl Breaker {
    pub uninterp spec fn id(&self) -> int;
    pub uninterp spec fn rule_spec(&self) -> Arc<Rule>;
    #[verifier::external_body] pub fn try_pass(&self, Tracked(tr): Tracked<&mut Trace>, ctx: &EntryContext) -> (r: bool)
        ensures final(tr)@ == old(tr)@.push(Ev::TryPass { breaker: self.id(), admitted: r }) { unimplemented!() }
    #[verifier::external_body] pub fn bound_rule(&self) -> (r: &Arc<Rule>) ensures *r == self.rule_spec() { unimplemented!() }
    #[verifier::external_body] pub fn on_request_complete(&self, Tracked(tr): Tracked<&mut Trace>, rt: u64, error: &Option<Error>)
        ensures final(tr)@ == old(tr)@.push(Ev::Complete { breaker: self.id(), rt }) { unimplemented!() }
}
impl ResourceWrapper {
    pub uninterp spec fn name_of(&self) -> &String;
    #[verifier::external_body] pub fn name(&self) -> (r: &String) ensures r == self.name_of() { unimplemented!() }
}
impl EntryContext {
    pub uninterp spec fn name_spec(&self) -> &String;
    pub uninterp spec fn rt(&self) -> u64;
    #[verifier::external_body] pub fn resource(&self) -> (r: &ResourceWrapper) ensures r.name_of() == self.name_spec() { unimplemented!() }
    #[verifier::external_body] pub fn round_trip(&self) -> (r: u64) ensures r == self.rt() { unimplemented!() }
    #[verifier::external_body] pub fn get_err(&self) -> (r: &Option<Error>) { unimplemented!() }
}
pub uninterp spec fn breakers_of(res: &String) -> Seq<Arc<Breaker>>;
#[verifier::external_body]
pub fn get_breakers_of_resource(res: &String) -> (r: Vec<Arc<Breaker>>) ensures r@ == breakers_of(res) { unimplemented!() }

/// the first k breakers were asked once each, in list order, and all of them admitted
pub open spec fn all_admitted(t: Seq<Ev>, bs: Seq<Arc<Breaker>>, k: int) -> bool {
    &&& t.len() == k
    &&& forall|i: int| 0 <= i < k ==> #[trigger] t[i] == (Ev::TryPass { breaker: bs[i].id(), admitted: true })
}
/// the first k breakers were told about the completion once each, in list order, with the entry's round trip
pub open spec fn all_completed(t: Seq<Ev>, bs: Seq<Arc<Breaker>>, k: int, rt: u64) -> bool {
    &&& t.len() == k
    &&& forall|i: int| 0 <= i < k ==> #[trigger] t[i] == (Ev::Complete { breaker: bs[i].id(), rt })
}
} // mod tr
use tr::*;
use std::sync::Arc;

// ---- extracted from core/circuitbreaker/slot.rs (extract-fn) ----
fn can_pass_check(Tracked(tr): Tracked<&mut Trace>, ctx: &EntryContext, res: &String) -> (out: Option<Arc<Rule>>)
    requires
        old(tr)@.len() == 0,
    ensures
        out is None ==> all_admitted(final(tr)@, breakers_of(res), breakers_of(res).len() as int),
        out is Some ==> final(tr)@.len() >= 1 && final(tr)@.len() <= breakers_of(res).len() && all_admitted(final(tr)@.drop_last(), breakers_of(res), final(tr)@.len() - 1) && final(tr)@.last() == (Ev::TryPass { breaker: breakers_of(res)[final(tr)@.len() - 1].id(), admitted: false }) && out->Some_0 == breakers_of(res)[final(tr)@.len() - 1].rule_spec(),
{
    let breakers = get_breakers_of_resource(res);
    for breaker in it: breakers 
        invariant
            it.seq() == breakers_of(res),
            all_admitted(tr@, breakers_of(res), it.index@),
    {
        let ghost t0 = tr@;
        if !breaker.try_pass(Tracked(tr), ctx) {
            proof { assert(tr@.drop_last() =~= t0); }
        return Some(Arc::clone(breaker.bound_rule()));
        }
    }
    None
}


pub struct MetricStatSlot {}
impl MetricStatSlot {
// ---- extracted from core/circuitbreaker/stat_slot.rs (extract-fn) ----
    fn on_completed(&self, Tracked(tr): Tracked<&mut Trace>, ctx: &mut EntryContext)
    requires
        old(tr)@.len() == 0,
    ensures
        all_completed(final(tr)@, breakers_of(old(ctx).name_spec()), breakers_of(old(ctx).name_spec()).len() as int, old(ctx).rt()),
        *final(ctx) == *old(ctx),
{
        let res = ctx.resource().name();
        let rt = ctx.round_trip();
        for cb in it: get_breakers_of_resource(res) 
        invariant
            it.seq() == breakers_of(old(ctx).name_spec()),
            all_completed(tr@, breakers_of(old(ctx).name_spec()), it.index@, old(ctx).rt()),
            *ctx == *old(ctx),
            rt == old(ctx).rt(),
    {
            cb.on_request_complete(Tracked(tr), rt, ctx.get_err());
        }
    }

}

proof fn verif_canary() { assert(false); }

} // verus!
fn main() {}
