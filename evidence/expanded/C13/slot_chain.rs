// Verus unit: SlotChain::entry / SlotChain::exit for chains of ANY length (C13, C04's "exactly one pass-or-blocked
// notification per statistic slot, completion iff passed").
// The two bodies are extracted from the current source on every run. Slots, the context and the lock are declared
// here as abstract stand-ins with assumed contracts; every slot callback appends one event to a ghost trace (`tr`,
// erased at compile time), which is how "who was called, in which order, with which verdict" becomes visible.
use vstd::prelude::*;
verus! {
pub mod ch {
use vstd::prelude::*;
use std::sync::Arc;

#[verifier::external_body] pub struct BlockError { _p: u8 }
pub enum TokenResult { Pass, Blocked(BlockError), Wait(u64) }
pub enum Ev {
    Prep { slot: int },
    Check { slot: int, res: TokenResult },
    Pass { slot: int },
    Blocked { slot: int, err: BlockError },
    Completed { slot: int },
}
#[verifier::external_body] pub struct PrepSlot { _p: u8 }
#[verifier::external_body] pub struct CheckSlot { _p: u8 }
#[verifier::external_body] pub struct StatSlot { _p: u8 }
#[verifier::external_body] pub struct EntryContext { _p: u8 }
#[verifier::external_body] pub struct ContextPtr { _p: u8 }
#[verifier::external_body] pub struct Poison { _p: u8 }
#[verifier::external_body] pub struct EntryWeakPtr { _p: u8 }
pub type Trace = Ghost<Seq<Ev>>;

impl TokenResult {
    #[verifier::external_body] pub fn clone(&self) -> (r: TokenResult) ensures r == *self { unimplemented!() }
    #[verifier::external_body] pub fn is_pass(&self) -> (r: bool) ensures r == (*self is Pass) { unimplemented!() }
    #[verifier::external_body] pub fn is_blocked(&self) -> (r: bool) ensures r == (*self is Blocked) { unimplemented!() }
    #[verifier::external_body] pub fn block_err(&self) -> (r: Option<BlockError>)
        ensures r is Some == (*self is Blocked), *self is Blocked ==> r == Some(self->Blocked_0) { unimplemented!() }
}
impl ContextPtr {
    pub uninterp spec fn cell(&self) -> EntryContext;
    #[verifier::external_body] pub fn write(&self) -> (r: Result<EntryContext, Poison>) ensures r is Ok, r->Ok_0 == self.cell() { unimplemented!() }
}
impl EntryContext {
    pub uninterp spec fn res(&self) -> TokenResult;
    pub uninterp spec fn has_entry(&self) -> bool;
    #[verifier::external_body] pub fn result(&self) -> (r: &TokenResult) ensures *r == self.res() { unimplemented!() }
    #[verifier::external_body] pub fn set_result(&mut self, r: TokenResult) ensures final(self).res() == r, final(self).has_entry() == old(self).has_entry() { unimplemented!() }
    #[verifier::external_body] pub fn reset_result_to_pass(&mut self) ensures final(self).res() == TokenResult::Pass, final(self).has_entry() == old(self).has_entry() { unimplemented!() }
    #[verifier::external_body] pub fn is_blocked(&self) -> (r: bool) ensures r == (self.res() is Blocked) { unimplemented!() }
    #[verifier::external_body] pub fn entry(&self) -> (r: Option<&EntryWeakPtr>) ensures r is Some == self.has_entry() { unimplemented!() }
}
impl PrepSlot {
    pub uninterp spec fn id(&self) -> int;
    #[verifier::external_body] pub fn prepare(&self, Tracked(tr): Tracked<&mut Trace>, ctx: &mut EntryContext)
        ensures final(tr)@ == old(tr)@.push(Ev::Prep { slot: self.id() }), final(ctx).res() == old(ctx).res(), final(ctx).has_entry() == old(ctx).has_entry() { unimplemented!() }
}
impl CheckSlot {
    pub uninterp spec fn id(&self) -> int;
    #[verifier::external_body] pub fn check(&self, Tracked(tr): Tracked<&mut Trace>, ctx: &mut EntryContext) -> (r: TokenResult)
        ensures final(tr)@ == old(tr)@.push(Ev::Check { slot: self.id(), res: r }), final(ctx).has_entry() == old(ctx).has_entry(),
            // a check slot leaves the context's result alone or stores the blocked value it returns
            final(ctx).res() == old(ctx).res() || (r is Blocked && final(ctx).res() == r) { unimplemented!() }
}
impl StatSlot {
    pub uninterp spec fn id(&self) -> int;
    #[verifier::external_body] pub fn on_entry_pass(&self, Tracked(tr): Tracked<&mut Trace>, ctx: &EntryContext)
        ensures final(tr)@ == old(tr)@.push(Ev::Pass { slot: self.id() }) { unimplemented!() }
    #[verifier::external_body] pub fn on_entry_blocked(&self, Tracked(tr): Tracked<&mut Trace>, ctx: &EntryContext, err: BlockError)
        ensures final(tr)@ == old(tr)@.push(Ev::Blocked { slot: self.id(), err }) { unimplemented!() }
    #[verifier::external_body] pub fn on_completed(&self, Tracked(tr): Tracked<&mut Trace>, ctx: &mut EntryContext)
        ensures final(tr)@ == old(tr)@.push(Ev::Completed { slot: self.id() }), final(ctx).res() == old(ctx).res(), final(ctx).has_entry() == old(ctx).has_entry() { unimplemented!() }
}

pub struct SlotChain {
    pub stat_pres: Vec<Arc<PrepSlot>>,
    pub rule_checks: Vec<Arc<CheckSlot>>,
    pub stats: Vec<Arc<StatSlot>>,
}

pub open spec fn refs_of<T>(s: Seq<&T>, v: Seq<T>) -> bool {
    s.len() == v.len() && forall|i: int| 0 <= i < s.len() ==> *(#[trigger] s[i]) == v[i]
}
/// some check slot among the events [lo, hi) of t returned Blocked
pub open spec fn any_blocked(t: Seq<Ev>, lo: int, hi: int) -> bool {
    exists|i: int| lo <= i < hi && (#[trigger] t[i] matches Ev::Check { res: TokenResult::Blocked(_), .. })
}

/// the blocked result `r` was returned by one of the check slots recorded in t[lo, hi)
pub open spec fn produced_by_check(t: Seq<Ev>, lo: int, hi: int, r: TokenResult) -> bool {
    exists|i: int| lo <= i < hi && (#[trigger] t[i] matches Ev::Check { res, .. } && res == r)
}
pub proof fn lemma_push_check(t: Seq<Ev>, lo: int, e: Ev, r: TokenResult)
    requires 0 <= lo <= t.len(), e is Check,
    ensures
        any_blocked(t.push(e), lo, t.len() as int + 1) == (any_blocked(t, lo, t.len() as int) || e->res is Blocked),
        produced_by_check(t, lo, t.len() as int, r) ==> produced_by_check(t.push(e), lo, t.len() as int + 1, r),
        e->res == r ==> produced_by_check(t.push(e), lo, t.len() as int + 1, r),
{
    let t1 = t.push(e);
    let n = t.len() as int;
    if any_blocked(t, lo, n) {
        let i = choose|i: int| lo <= i < n && (#[trigger] t[i] matches Ev::Check { res: TokenResult::Blocked(_), .. });
        assert(t1[i] == t[i]);
    }
    if e->res is Blocked { assert(t1[n] == e); }
    if any_blocked(t1, lo, n + 1) {
        let i = choose|i: int| lo <= i < n + 1 && (#[trigger] t1[i] matches Ev::Check { res: TokenResult::Blocked(_), .. });
        if i < n { assert(t1[i] == t[i]); }
    }
    if produced_by_check(t, lo, n, r) {
        let i = choose|i: int| lo <= i < n && (#[trigger] t[i] matches Ev::Check { res, .. } && res == r);
        assert(t1[i] == t[i]);
    }
    if e->res == r { assert(t1[n] == e); }
}
/// appending an event after position hi changes neither predicate on [lo, hi)
pub broadcast proof fn lemma_any_blocked_push_after(t: Seq<Ev>, lo: int, hi: int, e: Ev)
    requires 0 <= lo <= hi <= t.len(),
    ensures #[trigger] any_blocked(t.push(e), lo, hi) == any_blocked(t, lo, hi),
{
    let t1 = t.push(e);
    if any_blocked(t, lo, hi) {
        let i = choose|i: int| lo <= i < hi && (#[trigger] t[i] matches Ev::Check { res: TokenResult::Blocked(_), .. });
        assert(t1[i] == t[i]);
    }
    if any_blocked(t1, lo, hi) {
        let i = choose|i: int| lo <= i < hi && (#[trigger] t1[i] matches Ev::Check { res: TokenResult::Blocked(_), .. });
        assert(t1[i] == t[i]);
    }
}
pub broadcast proof fn lemma_produced_push_after(t: Seq<Ev>, lo: int, hi: int, e: Ev, r: TokenResult)
    requires 0 <= lo <= hi <= t.len(),
    ensures #[trigger] produced_by_check(t.push(e), lo, hi, r) == produced_by_check(t, lo, hi, r),
{
    let t1 = t.push(e);
    if produced_by_check(t, lo, hi, r) {
        let i = choose|i: int| lo <= i < hi && (#[trigger] t[i] matches Ev::Check { res, .. } && res == r);
        assert(t1[i] == t[i]);
    }
    if produced_by_check(t1, lo, hi, r) {
        let i = choose|i: int| lo <= i < hi && (#[trigger] t1[i] matches Ev::Check { res, .. } && res == r);
        assert(t1[i] == t[i]);
    }
}
/// what the chain has recorded after running p preparation slots and the first k check slots
pub open spec fn phase12(t: Seq<Ev>, pres: Seq<Arc<PrepSlot>>, checks: Seq<Arc<CheckSlot>>, k: int) -> bool {
    &&& t.len() >= pres.len() + k
    &&& forall|i: int| 0 <= i < pres.len() ==> #[trigger] t[i] == (Ev::Prep { slot: pres[i].id() })
    &&& forall|i: int| 0 <= i < k ==> (#[trigger] t[pres.len() + i] matches Ev::Check { slot, .. } && slot == checks[i].id())
}
/// the verdict the chain holds after the events [lo, hi): blocked iff some check slot blocked, and then with a value one of them returned
pub open spec fn verdict_ok(t: Seq<Ev>, lo: int, hi: int, v: TokenResult) -> bool {
    &&& (v is Blocked) == any_blocked(t, lo, hi)
    &&& v is Blocked ==> produced_by_check(t, lo, hi, v)
    &&& !(v is Blocked) ==> v == TokenResult::Pass
}
/// every one of the first k statistic slots has been told exactly once, and told the chain's verdict
pub open spec fn phase3(t: Seq<Ev>, base: int, stats: Seq<Arc<StatSlot>>, k: int, v: TokenResult) -> bool {
    &&& t.len() == base + k
    &&& forall|i: int| 0 <= i < k ==> #[trigger] t[base + i] == (if v is Blocked { Ev::Blocked { slot: stats[i].id(), err: v->Blocked_0 } } else { Ev::Pass { slot: stats[i].id() } })
}

/// exactly the first k statistic slots have been told about the completion, once each, in list order
pub open spec fn completed_all(t: Seq<Ev>, stats: Seq<Arc<StatSlot>>, k: int) -> bool {
    &&& t.len() == k
    &&& forall|i: int| 0 <= i < k ==> #[trigger] t[i] == (Ev::Completed { slot: stats[i].id() })
}
} // mod ch
use ch::*;
use std::sync::Arc;
broadcast use {ch::lemma_any_blocked_push_after, ch::lemma_produced_push_after};

impl SlotChain {
    pub open spec fn p(&self) -> int { self.stat_pres@.len() as int }
    pub open spec fn pc(&self) -> int { self.stat_pres@.len() as int + self.rule_checks@.len() as int }
// ---- extracted from core/base/slot_chain.rs (extract-fn) ----
    pub fn entry(&self, Tracked(tr): Tracked<&mut Trace>, ctx_ptr: ContextPtr) -> (r: TokenResult)
    requires
        old(tr)@.len() == 0,
    ensures
        phase12(final(tr)@, self.stat_pres@, self.rule_checks@, self.rule_checks@.len() as int),
        verdict_ok(final(tr)@, self.p(), self.pc(), r),
        phase3(final(tr)@, self.pc(), self.stats@, self.stats@.len() as int, r),
{
        let mut ctx = ctx_ptr.write().unwrap();
        // execute prepare slot
        for s in it: &self.stat_pres 
        invariant
            tr@.len() == it.index@,
            refs_of(it.seq(), self.stat_pres@),
            forall|i: int| 0 <= i < it.index@ ==> #[trigger] tr@[i] == (Ev::Prep { slot: self.stat_pres@[i].id() }),
    {
            s.prepare(Tracked(tr), &mut ctx); // Rc/Arc clone
        }

        // execute rule based checking slot
        ctx.reset_result_to_pass();
        for s in it: &self.rule_checks 
        invariant
            tr@.len() == self.stat_pres@.len() + it.index@,
            refs_of(it.seq(), self.rule_checks@),
            phase12(tr@, self.stat_pres@, self.rule_checks@, it.index@),
            verdict_ok(tr@, self.p(), tr@.len() as int, ctx.res()),
    {
            let ghost t0 = tr@; let ghost v0 = ctx.res();
        let res = s.check(Tracked(tr), &mut ctx);
        proof { lemma_push_check(t0, self.p(), tr@.last(), v0); lemma_push_check(t0, self.p(), tr@.last(), res); assert(forall|i: int| 0 <= i < t0.len() ==> #[trigger] tr@[i] == t0[i]); }
            // check slot result
            if res.is_blocked() {
                ctx.set_result(res.clone());
            }
        }

        // execute statistic slot
        for s in it: &self.stats 
        invariant
            refs_of(it.seq(), self.stats@),
            phase12(tr@, self.stat_pres@, self.rule_checks@, self.rule_checks@.len() as int),
            verdict_ok(tr@, self.p(), self.pc(), ctx.res()),
            phase3(tr@, self.pc(), self.stats@, it.index@, ctx.res()),
    {
            // indicate the result of rule based checking slot.
            if ctx.result().is_pass() {
                s.on_entry_pass(Tracked(tr), &ctx) // Rc/Arc clone
            } else if ctx.result().is_blocked() {
                // The block error should not be none.
                s.on_entry_blocked(Tracked(tr), &ctx, ctx.result().block_err().unwrap()) // Rc/Arc clone
            }
        }
        ctx.result().clone()
    }


// ---- extracted from core/base/slot_chain.rs (extract-fn) ----
    pub fn exit(&self, Tracked(tr): Tracked<&mut Trace>, ctx_ptr: ContextPtr)
    requires
        old(tr)@.len() == 0,
    ensures
        ctx_ptr.cell().has_entry() && !(ctx_ptr.cell().res() is Blocked) ==> completed_all(final(tr)@, self.stats@, self.stats@.len() as int),
        !ctx_ptr.cell().has_entry() || ctx_ptr.cell().res() is Blocked ==> final(tr)@.len() == 0,
{
        let mut ctx = ctx_ptr.write().unwrap();
        if ctx.entry().is_none() {
            
            return;
        }
        if ctx.is_blocked() {
            return;
        }
        // The on_completed is called only when entry passed
        for s in it: &self.stats 
        invariant
            refs_of(it.seq(), self.stats@),
            completed_all(tr@, self.stats@, it.index@),
    {
            s.on_completed(Tracked(tr), &mut ctx);
        }
    }

}

proof fn verif_canary() { assert(false); }

} // verus!
impl std::fmt::Debug for ch::Poison { fn fmt(&self, _f: &mut std::fmt::Formatter<'_>) -> std::fmt::Result { Ok(()) } }
fn main() {}
