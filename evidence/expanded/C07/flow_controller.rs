// Verus unit: flow::Controller::perform_checking - the glue between a rule's calculator and its checker (C01, C07, C08:
// the Kani obligations on the checkers and calculators take this function as an ASSUMED contract, because Kani 0.68
// cannot execute Arc<Mutex<dyn Trait>>; here its extracted body is proved against stand-in types).
use vstd::prelude::*;
verus! {
pub mod tr {
use vstd::prelude::*;
use std::sync::Arc;

#[verifier::external_body] pub struct BlockError { _p: u8 }
pub enum TokenResult { Pass, Blocked(BlockError), Wait(u64) }
#[verifier::external_body] pub struct Node { _p: u8 }
#[verifier::external_body] pub struct Rule { _p: u8 }
#[verifier::external_body] pub struct StandaloneStat { _p: u8 }
#[verifier::external_body] pub struct Poison { _p: u8 }
/// Mutex<dyn Calculator> / Mutex<dyn Checker> and their guards
#[verifier::external_body] pub struct CalcCell { _p: u8 }
#[verifier::external_body] pub struct CalcGuard { _p: u8 }
#[verifier::external_body] pub struct CheckCell { _p: u8 }
#[verifier::external_body] pub struct CheckGuard { _p: u8 }

pub enum Ev {
    Calc { cell: int, batch: u32, flag: i32, out: f64 },
    Check { cell: int, node: Option<Arc<Node>>, batch: u32, threshold: f64, verdict: TokenResult },
}
pub type Trace = Ghost<Seq<Ev>>;

impl CalcCell {
    pub uninterp spec fn id(&self) -> int;
    /// sequential execution: the lock is free and not poisoned
    #[verifier::external_body] pub fn lock(&self) -> (r: Result<CalcGuard, Poison>) ensures r is Ok, r->Ok_0.of() == self.id() { unimplemented!() }
}
impl CalcGuard {
    pub uninterp spec fn of(&self) -> int;
    #[verifier::external_body] pub fn calculate_allowed_threshold(&self, Tracked(tr): Tracked<&mut Trace>, batch_count: u32, flag: i32) -> (r: f64)
        ensures final(tr)@ == old(tr)@.push(Ev::Calc { cell: self.of(), batch: batch_count, flag, out: r }) { unimplemented!() }
}
impl CheckCell {
    pub uninterp spec fn id(&self) -> int;
    #[verifier::external_body] pub fn lock(&self) -> (r: Result<CheckGuard, Poison>) ensures r is Ok, r->Ok_0.of() == self.id() { unimplemented!() }
}
impl CheckGuard {
    pub uninterp spec fn of(&self) -> int;
    #[verifier::external_body] pub fn do_check(&self, Tracked(tr): Tracked<&mut Trace>, node: Option<Arc<Node>>, batch_count: u32, threshold: f64) -> (r: TokenResult)
        ensures final(tr)@ == old(tr)@.push(Ev::Check { cell: self.of(), node, batch: batch_count, threshold, verdict: r }) { unimplemented!() }
}
} // mod tr
use tr::*;
use std::sync::Arc;

// struct flow::Controller with the trait objects replaced by the stand-ins above (field names and nesting as in the source)
pub struct Controller {
    pub calculator: Option<Arc<CalcCell>>,
    pub checker: Option<Arc<CheckCell>>,
    pub rule: Arc<Rule>,
    pub stat: Arc<StandaloneStat>,
}

impl Controller {
// ---- extracted from core/flow/traffic_shaping/mod.rs (extract-fn) ----
    pub fn perform_checking(
        &self, Tracked(tr): Tracked<&mut Trace>,
        res_stat: Arc<Node>,
        batch_count: u32,
        flag: i32,
    ) -> (r: TokenResult)
    requires
        old(tr)@.len() == 0,
        self.calculator is Some && self.checker is Some,
    ensures
        final(tr)@.len() == 2,
        final(tr)@[0] matches Ev::Calc { cell, batch, flag: fl, out } && cell == self.calculator->Some_0.id() && batch == batch_count && fl == flag && (final(tr)@[1] matches Ev::Check { cell: c2, node, batch: b2, threshold, verdict } && c2 == self.checker->Some_0.id() && node == Some(res_stat) && b2 == batch_count && threshold == out && verdict == r),
{
        let calculator = self.calculator.as_ref().unwrap();
        let calculator = calculator.lock().unwrap();
        let allowed_threshold = calculator.calculate_allowed_threshold(Tracked(tr), batch_count, flag);
        

        let checker = self.checker.as_ref().unwrap();
        let checker = checker.lock().unwrap();
        checker.do_check(Tracked(tr), Some(res_stat), batch_count, allowed_threshold)
    }

}

// ---- hotspot::Controller::perform_checking: dispatch on the rule's metric type -------------------------------------
pub mod hs {
use vstd::prelude::*;
use std::sync::Arc;
use super::tr::{BlockError, TokenResult, Poison};

pub enum MetricType { Concurrency, QPS }
pub struct Rule { pub metric_type: MetricType }
#[verifier::external_body] pub struct ParamKey { _p: u8 }
#[verifier::external_body] pub struct ParamsMetric { _p: u8 }
#[verifier::external_body] pub struct CheckCell { _p: u8 }
#[verifier::external_body] pub struct CheckGuard { _p: u8 }
pub enum Ev {
    Concurrency { arg: ParamKey, verdict: TokenResult },
    Qps { cell: int, arg: ParamKey, batch: u32, verdict: TokenResult },
}
pub type Trace = Ghost<Seq<Ev>>;
impl CheckCell {
    pub uninterp spec fn id(&self) -> int;
    #[verifier::external_body] pub fn lock(&self) -> (r: Result<CheckGuard, Poison>) ensures r is Ok, r->Ok_0.of() == self.id() { unimplemented!() }
}
impl CheckGuard {
    pub uninterp spec fn of(&self) -> int;
    #[verifier::external_body] pub fn do_check(&self, Tracked(tr): Tracked<&mut Trace>, arg: ParamKey, batch_count: u32) -> (r: TokenResult)
        ensures final(tr)@ == old(tr)@.push(Ev::Qps { cell: self.of(), arg, batch: batch_count, verdict: r }) { unimplemented!() }
}
pub struct Controller {
    pub rule: Arc<Rule>,
    pub metric: Arc<ParamsMetric>,
    pub checker: Option<Arc<CheckCell>>,
}
impl Controller {
    /// contract of the sibling method (proved on the real function by the Kani obligation hm_concurrency_check)
    #[verifier::external_body]
    pub fn perform_checking_for_concurrency_metric(&self, Tracked(tr): Tracked<&mut Trace>, arg: ParamKey) -> (r: TokenResult)
        ensures final(tr)@ == old(tr)@.push(Ev::Concurrency { arg, verdict: r }) { unimplemented!() }

// ---- extracted from core/hotspot/traffic_shaping/mod.rs (extract-fn) ----
    pub fn perform_checking(&self, Tracked(tr): Tracked<&mut Trace>, arg: ParamKey, batch_count: u32) -> (r: TokenResult)
    requires
        old(tr)@.len() == 0,
        self.rule.metric_type is QPS ==> self.checker is Some,
    ensures
        final(tr)@.len() == 1,
        self.rule.metric_type is Concurrency ==> final(tr)@[0] == (Ev::Concurrency { arg, verdict: r }),
        self.rule.metric_type is QPS ==> final(tr)@[0] == (Ev::Qps { cell: self.checker->Some_0.id(), arg, batch: batch_count, verdict: r }),
{
        match self.rule.metric_type {
            MetricType::Concurrency => self.perform_checking_for_concurrency_metric(Tracked(tr), arg),
            MetricType::QPS => {
                let checker = self.checker.as_ref().unwrap();
                let checker = checker.lock().unwrap();
                checker.do_check(Tracked(tr), arg, batch_count)
            }
        }
    }

}
} // mod hs

proof fn verif_canary() { assert(false); }

} // verus!
impl std::fmt::Debug for tr::Poison { fn fmt(&self, _f: &mut std::fmt::Formatter<'_>) -> std::fmt::Result { Ok(()) } }
fn main() {}
