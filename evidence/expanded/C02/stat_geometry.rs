// Verus unit: window geometry arithmetic of sentinel-core, for EVERY geometry (C02, C17, C12).
// Items marked "extracted" are cut out of /repo's current tree on every run (engine/extract.py);
// everything else is specification / lemma text.
use vstd::prelude::*;
use std::sync::Arc;
verus! {

// ---- prelude: what the extraction substitutes -------------------------------------------------
// crate::Error / anyhow::Error -> opaque unit struct with an external_body constructor.
pub struct Error;
impl Error {
    #[verifier::external_body]
    pub fn msg(_m: &'static str) -> Error { Error }
}
pub type Result<T> = core::result::Result<T, Error>;

// ---- extracted from core/base/stat.rs (extract-const) ----
pub const ILLEGAL_GLOBAL_STATISTIC_PARAMS_ERROR: &'static str = "Invalid parameters, sampleCount or interval, for resource's global statistic";

// ---- extracted from core/base/stat.rs (extract-const) ----
pub const ILLEGAL_STATISTIC_PARAMS_ERROR: &'static str = "Invalid parameters, sampleCount or interval, for metric statistic";

// ---- extracted from core/base/stat.rs (extract-const) ----
pub const GLOBAL_STATISTIC_NON_REUSABLE_ERROR: &'static str = "The parameters, sampleCount and interval, mismatch for reusing between resource's global statistic and readonly metric statistic.";


// ---- specification (taken from the statement of C02 / C17) ------------------------------------
/// a statistic geometry that can be served: non-zero interval, non-zero bucket count, buckets divide the interval
pub open spec fn valid_stat(sample_count: u32, interval_ms: u32) -> bool {
    interval_ms != 0 && sample_count != 0 && interval_ms % sample_count == 0
}

/// a read window (sc, im) can be served by the underlying array (psc, pim):
/// both valid, the read interval tiles the array interval, the read bucket is a multiple of the array bucket
pub open spec fn reusable(sc: u32, im: u32, psc: u32, pim: u32) -> bool {
    valid_stat(sc, im) && valid_stat(psc, pim) && pim % im == 0 && (im / sc) % (pim / psc) == 0
}

pub open spec fn spec_bstart(t: int, len: int) -> int { t - t % len }
pub open spec fn spec_idx(t: int, len: int, n: int) -> int { (t / len) % n }

// ---- extracted: validity checks ---------------------------------------------------------------
// ---- extracted from core/base/stat.rs (extract-fn) ----
pub fn check_validity_for_statistic(
    sample_count: u32,
    interval_ms: u32,
    error_msg: &'static str,
) -> (r: Result<()>)
    ensures
        r.is_ok() == valid_stat(sample_count, interval_ms),
{
    if interval_ms == 0 || sample_count == 0 || interval_ms % sample_count != 0 {
        return Err(Error::msg(error_msg));
    }
    Ok(())
}


// ---- extracted from core/base/stat.rs (extract-fn) ----
pub fn check_validity_for_reuse_statistic(
    sample_count: u32,
    interval_ms: u32,
    parent_sample_count: u32,
    parent_interval_ms: u32,
) -> (r: Result<()>)
    ensures
        r.is_ok() == reusable(sample_count, interval_ms, parent_sample_count, parent_interval_ms),
{
    check_validity_for_statistic(sample_count, interval_ms, ILLEGAL_STATISTIC_PARAMS_ERROR)?;
    let bucket_length_in_ms = interval_ms / sample_count;

    check_validity_for_statistic(
        parent_sample_count,
        parent_interval_ms,
        ILLEGAL_GLOBAL_STATISTIC_PARAMS_ERROR,
    )?;
    let parent_bucket_length_in_ms = parent_interval_ms / parent_sample_count;
        proof { lemma_div_pos(parent_interval_ms as int, parent_sample_count as int); }

    //SlidingWindowMetric's intervalInMs is not divisible by BucketLeapArray's intervalInMs
    if parent_interval_ms % interval_ms != 0 {
        return Err(Error::msg(GLOBAL_STATISTIC_NON_REUSABLE_ERROR));
    }
    // BucketLeapArray's BucketLengthInMs is not divisible by SlidingWindowMetric's BucketLengthInMs
    if bucket_length_in_ms % parent_bucket_length_in_ms != 0 {
        return Err(Error::msg(GLOBAL_STATISTIC_NON_REUSABLE_ERROR));
    }
    Ok(())
}


pub proof fn lemma_div_pos(a: int, b: int)
    requires a > 0, b > 0, a % b == 0,
    ensures a / b > 0, (a / b) * b == a,
{
    assert(a == b * (a / b) + a % b) by { vstd::arithmetic::div_mod::lemma_fundamental_div_mod(a, b); }
    assert(a / b > 0) by(nonlinear_arith) requires a > 0, b > 0, a == b * (a / b);
    assert((a / b) * b == a) by(nonlinear_arith) requires a == b * (a / b);
}

// ---- extracted: the ring's arithmetic ---------------------------------------------------------
// struct LeapArray<T>: the generic parameter and the two vector fields (`array`, `mutex`) are dropped;
// the three integer fields the arithmetic reads are kept verbatim.
// ---- extracted from core/stat/base/leap_array.rs (extract-struct) ----
pub struct LeapArray {
    pub bucket_len_ms: u32,
    pub sample_count: u32,
    pub interval_ms: u32,
}


impl LeapArray {
    pub open spec fn wf(&self) -> bool {
        self.bucket_len_ms > 0 && self.sample_count > 0
        && self.interval_ms as int == self.bucket_len_ms as int * self.sample_count as int
    }

// ---- extracted from core/stat/base/leap_array.rs (extract-fn) ----
    pub fn calculate_start_stamp(&self, now: u64) -> (r: u64)
    requires
        self.bucket_len_ms > 0,
    ensures
        r as int == spec_bstart(now as int, self.bucket_len_ms as int),
        r <= now && (now as int) < r as int + self.bucket_len_ms as int,
        r as int % (self.bucket_len_ms as int) == 0,
{
        proof { lemma_bstart(now as int, self.bucket_len_ms as int); }
        now - now % (self.bucket_len_ms as u64)
    }


// ---- extracted from core/stat/base/leap_array.rs (extract-fn) ----
    pub fn time2idx(&self, now: u64) -> (r: u64)
    requires
        self.bucket_len_ms > 0 && self.sample_count > 0,
    ensures
        r as int == spec_idx(now as int, self.bucket_len_ms as int, self.sample_count as int),
        r < self.sample_count as u64,
{
        let idx = now / (self.bucket_len_ms as u64);
        idx % (self.sample_count as u64)
    }


// ---- extracted from core/stat/base/leap_array.rs (extract-fn) ----
    pub fn bucket_len_ms(&self) -> (r: u32)
    ensures
        r == self.bucket_len_ms,
{
        self.bucket_len_ms
    }


// ---- extracted from core/stat/base/leap_array.rs (extract-fn) ----
    pub fn sample_count(&self) -> (r: u32)
    ensures
        r == self.sample_count,
{
        self.sample_count
    }


// ---- extracted from core/stat/base/leap_array.rs (extract-fn) ----
    pub fn interval_ms(&self) -> (r: u32)
    ensures
        r == self.interval_ms,
{
        self.interval_ms
    }

}

pub proof fn lemma_bstart(t: int, len: int)
    requires t >= 0, len > 0,
    ensures
        0 <= t % len < len,
        spec_bstart(t, len) == len * (t / len),
        spec_bstart(t, len) % len == 0,
        spec_bstart(t, len) <= t < spec_bstart(t, len) + len,
        spec_bstart(t, len) >= 0,
{
    vstd::arithmetic::div_mod::lemma_fundamental_div_mod(t, len);
    vstd::arithmetic::div_mod::lemma_mod_bound(t, len);
    vstd::arithmetic::div_mod::lemma_mod_multiples_basic(t / len, len);
    assert((t / len) * len == len * (t / len)) by(nonlinear_arith);
    assert(t / len >= 0) by { vstd::arithmetic::div_mod::lemma_div_pos_is_pos(t, len); }
    assert(len * (t / len) >= 0) by(nonlinear_arith) requires len > 0, t / len >= 0;
}

pub type BucketLeapArray = LeapArray;

// struct SlidingWindowMetric: kept verbatim (inner: Arc<BucketLeapArray>, with BucketLeapArray = LeapArray above)
// ---- extracted from core/stat/base/sliding_window_metric.rs (extract-struct) ----
pub struct SlidingWindowMetric {
    pub bucket_len_ms: u32,
    pub sample_count: u32,
    pub interval_ms: u32,
    pub inner: Arc<BucketLeapArray>,
}


impl SlidingWindowMetric {
    pub open spec fn wf(&self) -> bool {
        self.inner.wf()
        && reusable(self.sample_count, self.interval_ms, self.inner.sample_count, self.inner.interval_ms)
        && self.bucket_len_ms == self.interval_ms / self.sample_count
    }

// ---- extracted from core/stat/base/sliding_window_metric.rs (extract-fn) ----
    pub fn new(sample_count: u32, interval_ms: u32, inner: Arc<BucketLeapArray>) -> (r: Result<Self>)
    ensures
        r.is_ok() == reusable(sample_count, interval_ms, inner.sample_count, inner.interval_ms),
        r matches Ok(m) ==> m.inner == inner && m.sample_count == sample_count && m.interval_ms == interval_ms && m.bucket_len_ms == interval_ms / sample_count,
{
        check_validity_for_reuse_statistic(
            sample_count,
            interval_ms,
            inner.sample_count(),
            inner.interval_ms(),
        )?;
        Ok(SlidingWindowMetric {
            bucket_len_ms: interval_ms / sample_count,
            sample_count,
            interval_ms,
            inner,
        })
    }


// ---- extracted from core/stat/base/sliding_window_metric.rs (extract-fn) ----
    pub fn bucket_start_range(&self, t_ms: u64) -> (r: (u64, u64))
    requires
        self.wf(),
        t_ms >= self.interval_ms as u64,
    ensures
        r.1 as int == spec_bstart(t_ms as int, self.inner.bucket_len_ms as int),
        r.0 as int == r.1 as int - self.interval_ms as int + self.inner.bucket_len_ms as int,
        r.0 <= r.1,
{
        let end = self.inner.calculate_start_stamp(t_ms);
        proof { lemma_range_no_underflow(t_ms as int, self.sample_count, self.interval_ms, self.inner.sample_count, self.inner.interval_ms, self.inner.bucket_len_ms as int); }
        let start = end - self.interval_ms as u64 + self.inner.bucket_len_ms() as u64;
        (start, end)
    }

}

/// consequences of the reuse check for an array with bucket length `len` (pim == len * psc):
/// the read interval is a positive multiple of the array's bucket length and not longer than the array interval
pub proof fn lemma_reusable_facts(sc: u32, im: u32, psc: u32, pim: u32, len: int)
    requires reusable(sc, im, psc, pim), len > 0, pim as int == len * psc as int,
    ensures
        len == pim as int / psc as int,
        im as int % len == 0,
        im as int / len >= 1,
        im as int == (im as int / len) * len,
        im <= pim,
{
    let imi = im as int; let sci = sc as int; let pimi = pim as int; let psci = psc as int;
    vstd::arithmetic::div_mod::lemma_fundamental_div_mod_converse(pimi, psci, len, 0);
    let b = imi / sci;
    vstd::arithmetic::div_mod::lemma_fundamental_div_mod(imi, sci);
    vstd::arithmetic::div_mod::lemma_fundamental_div_mod(b, len);
    let m = b / len;
    assert(imi == (sci * m) * len) by(nonlinear_arith)
        requires imi == sci * b + imi % sci, imi % sci == 0, b == len * m + b % len, b % len == 0;
    vstd::arithmetic::div_mod::lemma_fundamental_div_mod_converse(imi, len, sci * m, 0);
    assert(sci * m >= 1) by(nonlinear_arith) requires imi == (sci * m) * len, imi > 0, len > 0;
    // im <= pim because pim is a positive multiple of im
    vstd::arithmetic::div_mod::lemma_fundamental_div_mod(pimi, imi);
    assert(imi <= pimi) by(nonlinear_arith)
        requires pimi == imi * (pimi / imi) + pimi % imi, pimi % imi == 0, pimi > 0, imi > 0;
}

/// `end - interval + len` cannot underflow once t >= interval, and start <= end
pub proof fn lemma_range_no_underflow(t: int, sc: u32, im: u32, psc: u32, pim: u32, len: int)
    requires reusable(sc, im, psc, pim), len > 0, pim as int == len * psc as int, t >= im as int,
    ensures
        spec_bstart(t, len) - im as int >= 0,
        spec_bstart(t, len) - im as int + len <= spec_bstart(t, len),
{
    lemma_reusable_facts(sc, im, psc, pim, len);
    lemma_bstart(t, len);
    let q = im as int / len;
    vstd::arithmetic::div_mod::lemma_div_is_ordered(im as int, t, len);
    assert(len * (t / len) >= len * q) by(nonlinear_arith) requires t / len >= q, len > 0;
    assert(len * q == q * len) by(nonlinear_arith);
    assert(im as int >= len) by(nonlinear_arith) requires im as int == q * len, q >= 1, len > 0;
}

// ---- C17: an accepted configuration is usable --------------------------------------------------
/// What `LeapArray::new` decides (checked against the real constructor by Kani obligation
/// c02_leap_array_new, because its body builds Vec<Arc<..>>/Mutex values Verus cannot take):
pub open spec fn leap_array_new_ok(sample_count: u32, interval_ms: u32) -> bool {
    sample_count != 0 && interval_ms % sample_count == 0
}

/// accepted by ConfigEntity::check's geometry test  ==>  both constructions in ResourceNode::new succeed,
/// the array has bucket length >= 1 (so no later division by zero), and the window is as configured.
pub proof fn lemma_c17_accepted_is_usable(sc: u32, im: u32, sct: u32, imt: u32)
    requires reusable(sc, im, sct, imt),
    ensures
        leap_array_new_ok(sct, imt),
        imt / sct >= 1,
        (imt / sct) as int * sct as int == imt as int,
        // SlidingWindowMetric::new(sc, im, arr) with arr = LeapArray{sct, imt, imt/sct} is Ok (its contract above)
        reusable(sc, im, sct, imt),
        im / sc >= 1,
{
    lemma_div_pos(imt as int, sct as int);
    lemma_div_pos(im as int, sc as int);
}

/// conversely: a default window that does not tile / divide the global window is refused
pub proof fn lemma_c17_unservable_is_rejected(sc: u32, im: u32, sct: u32, imt: u32)
    requires
        sc == 0 || im == 0 || sct == 0 || imt == 0 || im % sc != 0 || imt % sct != 0
        || imt % im != 0 || (im / sc) % (imt / sct) != 0,
    ensures !reusable(sc, im, sct, imt),
{
}

// ---- C02: arithmetic lemmas for every geometry (L-C02a) ----------------------------------------
/// same bucket  ==>  same slot and same start
pub proof fn lemma_same_bucket(t1: int, t2: int, len: int, n: int)
    requires t1 >= 0, t2 >= 0, len > 0, n > 0, t1 / len == t2 / len,
    ensures spec_idx(t1, len, n) == spec_idx(t2, len, n), spec_bstart(t1, len) == spec_bstart(t2, len),
{
    lemma_bstart(t1, len);
    lemma_bstart(t2, len);
}

/// start of bucket number k is k*len, it lives in slot k mod n
pub proof fn lemma_bucket_number(k: int, off: int, len: int, n: int)
    requires k >= 0, 0 <= off < len, n > 0,
    ensures
        (k * len + off) / len == k,
        spec_bstart(k * len + off, len) == k * len,
        spec_idx(k * len + off, len, n) == k % n,
{
    vstd::arithmetic::div_mod::lemma_fundamental_div_mod_converse(k * len + off, len, k, off);
}

/// two distinct buckets less than one array interval (n buckets) apart never share a slot
pub proof fn lemma_no_alias_inside_interval(k1: int, k2: int, n: int)
    requires 0 <= k1 < k2, k2 - k1 < n, n > 0,
    ensures k1 % n != k2 % n,
{
    if k1 % n == k2 % n {
        vstd::arithmetic::div_mod::lemma_fundamental_div_mod(k1, n);
        vstd::arithmetic::div_mod::lemma_fundamental_div_mod(k2, n);
        let d = k2 / n - k1 / n;
        assert(k2 - k1 == n * d) by(nonlinear_arith)
            requires k1 == n * (k1 / n) + k1 % n, k2 == n * (k2 / n) + k2 % n, k1 % n == k2 % n, d == k2 / n - k1 / n;
        assert(false) by(nonlinear_arith) requires 0 < k2 - k1 < n, k2 - k1 == n * d, n > 0;
    }
}

/// every bucket start inside the read range of an accepted geometry is non-deprecated at t
/// (deprecated(now, s, iv) = now > s && now - s > iv with iv = the ARRAY interval), so the
/// is_deprecated filter never removes a wanted bucket.
pub proof fn lemma_range_not_deprecated(t: int, s: int, im: int, len: int, pim: int)
    requires t >= 0, len > 0, im > 0, im <= pim,
        spec_bstart(t, len) - im + len <= s <= spec_bstart(t, len),
    ensures !(t > s && t - s > pim),
{
    lemma_bstart(t, len);
}

/// and a start that survives both filters (not deprecated, inside [start,end]) lies in the window
/// (t - im, t], i.e. nothing older than the read window is reported
pub proof fn lemma_range_is_window(t: int, s: int, im: int, len: int)
    requires t >= 0, len > 0, im > 0, spec_bstart(t, len) - im + len <= s <= spec_bstart(t, len),
    ensures s <= t, t - s < im,
{
    lemma_bstart(t, len);
}

/// the bucket starts in the read range [e - im + len, e] are exactly e, e-len, .., e-(q-1)len with q = im/len
pub proof fn lemma_range_count(e: int, im: int, len: int, q: int)
    requires len > 0, im == q * len, q >= 1, e % len == 0,
    ensures
        forall|j: int| 0 <= j < q ==> e - im + len <= #[trigger] (e - j * len) <= e,
        forall|s: int| e - im + len <= s <= e && #[trigger] (s % len) == 0
            ==> 0 <= (e - s) / len < q && s == e - ((e - s) / len) * len,
{
    assert forall|j: int| 0 <= j < q implies e - im + len <= #[trigger] (e - j * len) <= e by {
        assert(j * len >= 0 && j * len <= (q - 1) * len) by(nonlinear_arith) requires 0 <= j < q, len > 0;
        assert((q - 1) * len == q * len - len) by(nonlinear_arith);
    }
    assert forall|s: int| e - im + len <= s <= e && #[trigger] (s % len) == 0
        implies 0 <= (e - s) / len < q && s == e - ((e - s) / len) * len by {
        vstd::arithmetic::div_mod::lemma_fundamental_div_mod(s, len);
        vstd::arithmetic::div_mod::lemma_fundamental_div_mod(e, len);
        let j = e / len - s / len;
        assert(e - s == j * len) by(nonlinear_arith)
            requires e == len * (e / len) + e % len, s == len * (s / len) + s % len, e % len == 0, s % len == 0, j == e / len - s / len;
        assert(0 <= j < q) by(nonlinear_arith) requires e - s == j * len, 0 <= e - s, e - s <= q * len - len, len > 0;
        vstd::arithmetic::div_mod::lemma_fundamental_div_mod_converse(e - s, len, j, 0);
    }
}

// ---- extracted: the configuration entity's own check (C17: what init accepts is exactly what the node can serve) ----
// The nested configuration structs are stand-ins reduced to the fields `check` reads; StatConfig is extracted.
#[verifier::external_body] pub struct Text { _p: u8 }
impl Text {
    pub uninterp spec fn empty(&self) -> bool;
    #[verifier::external_body] pub fn is_empty(&self) -> (r: bool) ensures r == self.empty() { unimplemented!() }
}
pub struct AppConfig { pub app_name: Text }
pub struct MetricLogConfig { pub single_file_max_size: u64, pub max_file_count: usize }
pub struct LogConfig { pub metric: MetricLogConfig }
// ---- extracted from core/config/entity.rs (extract-struct) ----
pub struct StatConfig {
    pub sample_count_total: u32,
    pub interval_ms_total: u32,
    pub sample_count: u32,
    pub interval_ms: u32,
}

pub struct SentinelConfig { pub app: AppConfig, pub log: LogConfig, pub stat: StatConfig }
pub struct ConfigEntity { pub version: Text, pub config: SentinelConfig }

impl ConfigEntity {
// ---- extracted from core/config/entity.rs (extract-fn) ----
    pub fn check(&self) -> (r: Result<()>)
    ensures
        r.is_ok() == (!self.version.empty() && !self.config.app.app_name.empty() && self.config.log.metric.max_file_count != 0 && self.config.log.metric.single_file_max_size != 0 && reusable(self.config.stat.sample_count, self.config.stat.interval_ms, self.config.stat.sample_count_total, self.config.stat.interval_ms_total)),
{
        if self.version.is_empty() {
            return Err(Error::msg("empty version"));
        }
        if self.config.app.app_name.is_empty() {
            return Err(Error::msg("empty app name"));
        }
        if self.config.log.metric.max_file_count == 0 {
            return Err(Error::msg(
                "illegal metric log configuration: max_file_count < 0",
            ));
        }
        if self.config.log.metric.single_file_max_size == 0 {
            return Err(Error::msg(
                "illegal metric log configuration: single_file_max_size < 0",
            ));
        }
        check_validity_for_reuse_statistic(
            self.config.stat.sample_count,
            self.config.stat.interval_ms,
            self.config.stat.sample_count_total,
            self.config.stat.interval_ms_total,
        )?;
        Ok(())
    }

}

// vacuity canary: must FAIL (if it verifies, an axiom or contract above is contradictory)
proof fn verif_canary() { assert(false); }

} // verus!
fn main() {}
