// Verus unit (lemmas only): history lifting for C02 / C01 (L-C02b).
// Everything is phrased in BUCKET NUMBERS (k = t div len), for one fixed event kind. The per-call contracts proved by
// Kani on the real code are, in these terms:
//   write(kn, c)  [bla_add_count_with_time_*]: slot kn mod n becomes {k: kn, v: (old v if it already held kn else 0) + c},
//                                             every other slot unchanged            (spec fn `write_step`)
//   read(kt, q)   [swm_sum_with_time_*]      : result = sum over slots i of (v_i if slot i is non-empty and kt-q < k_i <= kt)
//                                                                                     (spec fn `read_slots`)
// The lemmas show: the ring invariant holds initially, every write with a non-decreasing bucket preserves it, and under
// it a read returns exactly the events of the history whose bucket lies in the window - for every n, q <= n, history.
use vstd::prelude::*;
verus! {

pub struct Ev { pub k: int, pub c: int }
pub struct Slot { pub empty: bool, pub k: int, pub v: int }

/// total count recorded in bucket k by the history
pub open spec fn bucket_sum(h: Seq<Ev>, k: int) -> int
    decreases h.len(),
{
    if h.len() == 0 { 0 } else {
        bucket_sum(h.drop_last(), k) + (if h.last().k == k { h.last().c } else { 0 })
    }
}

pub open spec fn nondecreasing(h: Seq<Ev>) -> bool {
    forall|i: int, j: int| 0 <= i <= j < h.len() ==> h[i].k <= h[j].k
}

/// ring invariant: slot i is empty iff the history never touched residue class i; otherwise it holds the NEWEST bucket
/// of its class that occurs in the history, with exactly that bucket's total
pub open spec fn inv(r: Seq<Slot>, h: Seq<Ev>, n: int) -> bool {
    r.len() == n && n > 0
    && (forall|j: int| 0 <= j < h.len() ==> h[j].k >= 0)
    && forall|i: int| 0 <= i < n ==> (
        if #[trigger] r[i].empty {
            r[i].v == 0 && forall|j: int| 0 <= j < h.len() ==> #[trigger] (h[j].k % n) != i
        } else {
            r[i].k >= 0 && r[i].k % n == i
            && (exists|j: int| 0 <= j < h.len() && h[j].k == r[i].k)
            && (forall|j: int| 0 <= j < h.len() && #[trigger] (h[j].k % n) == i ==> h[j].k <= r[i].k)
            && r[i].v == bucket_sum(h, r[i].k)
        })
}

/// contract of the writer in bucket terms
pub open spec fn write_step(r: Seq<Slot>, r2: Seq<Slot>, kn: int, c: int, n: int) -> bool {
    r2.len() == r.len()
    && (forall|i: int| 0 <= i < r.len() && i != kn % n ==> r2[i] == r[i])
    && r2[kn % n] == Slot { empty: false, k: kn, v: (if !r[kn % n].empty && r[kn % n].k == kn { r[kn % n].v } else { 0 }) + c }
}

pub proof fn lemma_bucket_sum_none(h: Seq<Ev>, k: int)
    requires forall|j: int| 0 <= j < h.len() ==> h[j].k != k,
    ensures bucket_sum(h, k) == 0,
    decreases h.len(),
{
    if h.len() > 0 {
        assert forall|j: int| 0 <= j < h.drop_last().len() implies h.drop_last()[j].k != k by { assert(h.drop_last()[j] == h[j]); }
        lemma_bucket_sum_none(h.drop_last(), k);
    }
}

pub proof fn lemma_initial(n: int)
    requires n > 0,
    ensures inv(Seq::new(n as nat, |i: int| Slot { empty: true, k: 0, v: 0 }), Seq::<Ev>::empty(), n),
{
}

/// a write at a bucket not older than anything in the history preserves the invariant
pub proof fn lemma_write_preserves(r: Seq<Slot>, r2: Seq<Slot>, h: Seq<Ev>, kn: int, c: int, n: int)
    requires inv(r, h, n), write_step(r, r2, kn, c, n), kn >= 0,
             forall|j: int| 0 <= j < h.len() ==> h[j].k <= kn,
    ensures inv(r2, h.push(Ev { k: kn, c: c }), n),
{
    let h2 = h.push(Ev { k: kn, c: c });
    let idx = kn % n;
    assert(0 <= idx < n) by { vstd::arithmetic::div_mod::lemma_mod_bound(kn, n); }
    assert(h2.drop_last() =~= h);
    assert(h2.last() == Ev { k: kn, c: c });
    assert forall|j: int| 0 <= j < h2.len() implies h2[j].k >= 0 by {
        if j < h.len() { assert(h2[j] == h[j]); }
    }
    assert forall|i: int| 0 <= i < n implies (
        if #[trigger] r2[i].empty {
            r2[i].v == 0 && forall|j: int| 0 <= j < h2.len() ==> #[trigger] (h2[j].k % n) != i
        } else {
            r2[i].k >= 0 && r2[i].k % n == i
            && (exists|j: int| 0 <= j < h2.len() && h2[j].k == r2[i].k)
            && (forall|j: int| 0 <= j < h2.len() && #[trigger] (h2[j].k % n) == i ==> h2[j].k <= r2[i].k)
            && r2[i].v == bucket_sum(h2, r2[i].k)
        }) by {
        if i == idx {
            assert(h2[h.len() as int].k == kn);
            assert forall|j: int| 0 <= j < h2.len() && #[trigger] (h2[j].k % n) == i implies h2[j].k <= kn by {
                if j < h.len() { assert(h2[j] == h[j]); }
            }
            // value: bucket_sum(h2, kn) == bucket_sum(h, kn) + c, and bucket_sum(h, kn) is the old v if the slot held kn, else 0
            if !r[idx].empty && r[idx].k == kn {
            } else {
                // no event of bucket kn in h: the slot is empty (class untouched) or holds an older bucket (the max of its class)
                assert forall|j: int| 0 <= j < h.len() implies h[j].k != kn by {
                    if h[j].k == kn {
                        assert(h[j].k % n == idx);
                        if r[idx].empty { } else { assert(h[j].k <= r[idx].k); assert(r[idx].k <= kn) by {
                            let w = choose|w: int| 0 <= w < h.len() && h[w].k == r[idx].k; assert(h[w].k <= kn); } }
                    }
                }
                lemma_bucket_sum_none(h, kn);
            }
        } else {
            assert(r2[i] == r[i]);
            if r[i].empty {
                assert forall|j: int| 0 <= j < h2.len() implies #[trigger] (h2[j].k % n) != i by {
                    if j < h.len() { assert(h2[j] == h[j]); }
                }
            } else {
                let w = choose|w: int| 0 <= w < h.len() && h[w].k == r[i].k;
                assert(h2[w] == h[w]);
                assert forall|j: int| 0 <= j < h2.len() && #[trigger] (h2[j].k % n) == i implies h2[j].k <= r[i].k by {
                    if j < h.len() { assert(h2[j] == h[j]); }
                }
                assert(r[i].k != kn); // different residue class
            }
        }
    }
}

/// what the reader returns (its Kani-proved contract): the values of the slots whose bucket lies in (kt-q, kt]
pub open spec fn read_slots(r: Seq<Slot>, kt: int, q: int, upto: int) -> int
    decreases upto,
{
    if upto <= 0 { 0 } else {
        read_slots(r, kt, q, upto - 1)
        + (if !r[upto - 1].empty && kt - q < r[upto - 1].k <= kt { r[upto - 1].v } else { 0 })
    }
}

/// what the property demands: the events of the history whose bucket is one of the `j` newest window buckets
pub open spec fn window_sum(h: Seq<Ev>, kt: int, j: int) -> int
    decreases j,
{
    if j <= 0 { 0 } else { window_sum(h, kt, j - 1) + bucket_sum(h, kt - (j - 1)) }
}

/// sum over the slots (first `upto`) that hold exactly bucket k
pub open spec fn slots_holding(r: Seq<Slot>, k: int, upto: int) -> int
    decreases upto,
{
    if upto <= 0 { 0 } else {
        slots_holding(r, k, upto - 1) + (if !r[upto - 1].empty && r[upto - 1].k == k { r[upto - 1].v } else { 0 })
    }
}

/// at most one slot (k mod n) can hold bucket k; the sum over slots holding k is that slot's value or 0
proof fn lemma_slots_holding(r: Seq<Slot>, h: Seq<Ev>, n: int, k: int, upto: int)
    requires inv(r, h, n), 0 <= upto <= n, k >= 0,
    ensures slots_holding(r, k, upto) ==
        (if k % n < upto && !r[k % n].empty && r[k % n].k == k { r[k % n].v } else { 0 }),
    decreases upto,
{
    vstd::arithmetic::div_mod::lemma_mod_bound(k, n);
    if upto > 0 {
        lemma_slots_holding(r, h, n, k, upto - 1);
        let i = upto - 1;
        if !r[i].empty && r[i].k == k { assert(r[i].k % n == i); }
    }
}

/// splitting the window: slots in (kt-(j+1), kt] = slots in (kt-j, kt] + slots holding exactly kt-j
proof fn lemma_read_split(r: Seq<Slot>, kt: int, j: int, upto: int)
    requires 0 <= upto <= r.len(), j >= 0,
    ensures read_slots(r, kt, j + 1, upto) == read_slots(r, kt, j, upto) + slots_holding(r, kt - j, upto),
    decreases upto,
{
    if upto > 0 { lemma_read_split(r, kt, j, upto - 1); }
}

proof fn lemma_read_empty_window(r: Seq<Slot>, kt: int, upto: int)
    requires 0 <= upto <= r.len(),
    ensures read_slots(r, kt, 0, upto) == 0,
    decreases upto,
{
    if upto > 0 { lemma_read_empty_window(r, kt, upto - 1); }
}

/// pointwise: for a bucket k of the window, the slot of its residue class holds k with k's total, or k has no events
proof fn lemma_bucket_in_window(r: Seq<Slot>, h: Seq<Ev>, n: int, kt: int, q: int, k: int)
    requires inv(r, h, n), 1 <= q <= n, kt - q < k <= kt, k >= 0,
             forall|j: int| 0 <= j < h.len() ==> h[j].k <= kt,
    ensures (if !r[k % n].empty && r[k % n].k == k { r[k % n].v } else { 0 }) == bucket_sum(h, k),
{
    vstd::arithmetic::div_mod::lemma_mod_bound(k, n);
    let i = k % n;
    if !r[i].empty && r[i].k == k {
    } else {
        assert forall|j: int| 0 <= j < h.len() implies h[j].k != k by {
            if h[j].k == k {
                assert(h[j].k % n == i);
                if !r[i].empty {
                    // the slot holds K >= k of the same class, K <= kt < k + n  =>  K == k
                    let big = r[i].k;
                    assert(k <= big);
                    let w = choose|w: int| 0 <= w < h.len() && h[w].k == big;
                    assert(big <= kt);
                    lemma_same_class_close(k, big, n);
                }
            }
        }
        lemma_bucket_sum_none(h, k);
    }
}

/// two numbers of the same residue class less than n apart are equal
proof fn lemma_same_class_close(a: int, b: int, n: int)
    requires n > 0, a <= b, b - a < n, a % n == b % n,
    ensures a == b,
{
    vstd::arithmetic::div_mod::lemma_fundamental_div_mod(a, n);
    vstd::arithmetic::div_mod::lemma_fundamental_div_mod(b, n);
    let d = b / n - a / n;
    assert(b - a == n * d) by(nonlinear_arith)
        requires a == n * (a / n) + a % n, b == n * (b / n) + b % n, a % n == b % n, d == b / n - a / n;
    assert(d == 0) by(nonlinear_arith) requires 0 <= b - a < n, b - a == n * d, n > 0;
}

/// READ LEMMA: under the invariant a read at bucket kt (not older than the history) over q <= n buckets returns
/// exactly the events of the history whose bucket lies in (kt-q, kt] - nothing older is reported, nothing inside is missed
pub proof fn lemma_read_exact(r: Seq<Slot>, h: Seq<Ev>, n: int, kt: int, q: int)
    requires inv(r, h, n), 1 <= q <= n, kt - q + 1 >= 0,
             forall|j: int| 0 <= j < h.len() ==> h[j].k <= kt,
    ensures read_slots(r, kt, q, n) == window_sum(h, kt, q),
{
    lemma_read_prefix(r, h, n, kt, q, q);
}

proof fn lemma_read_prefix(r: Seq<Slot>, h: Seq<Ev>, n: int, kt: int, q: int, j: int)
    requires inv(r, h, n), 1 <= q <= n, kt - q + 1 >= 0, 0 <= j <= q,
             forall|w: int| 0 <= w < h.len() ==> h[w].k <= kt,
    ensures read_slots(r, kt, j, n) == window_sum(h, kt, j),
    decreases j,
{
    if j == 0 {
        lemma_read_empty_window(r, kt, n);
    } else {
        lemma_read_prefix(r, h, n, kt, q, j - 1);
        let k = kt - (j - 1);
        lemma_read_split(r, kt, j - 1, n);
        lemma_slots_holding(r, h, n, k, n);
        vstd::arithmetic::div_mod::lemma_mod_bound(k, n);
        lemma_bucket_in_window(r, h, n, kt, q, k);
    }
}

proof fn verif_canary() { assert(false); }

} // verus!
fn main() {}
