// Verus unit: circuit-breaker rule -> statistic geometry (C12: "valid => constructor cannot panic").
use vstd::prelude::*;
verus! {

// struct circuitbreaker::Rule reduced to the two integer fields the extracted function reads
// ---- extracted from core/circuitbreaker/rule.rs (extract-struct) ----
pub struct Rule {
    pub stat_interval_ms: u32,
    pub stat_sliding_window_bucket_count: u32,
}


/// what LeapArray::new accepts (proved against the real constructor by the Kani obligations la_new_decision_*)
pub open spec fn leap_array_new_ok(sample_count: u32, interval_ms: u32) -> bool {
    sample_count != 0 && interval_ms % sample_count == 0
}

impl Rule {
// ---- extracted from core/circuitbreaker/rule.rs (extract-fn) ----
    pub fn get_rule_stat_sliding_window_bucket_count(&self) -> (r: u32)
    ensures
        r >= 1,
        self.stat_interval_ms % r == 0,
        leap_array_new_ok(r, self.stat_interval_ms),
        (self.stat_sliding_window_bucket_count != 0 && self.stat_interval_ms % self.stat_sliding_window_bucket_count == 0) ==> r == self.stat_sliding_window_bucket_count,
{
        let mut bucket_count = self.stat_sliding_window_bucket_count;
        if bucket_count == 0 || self.stat_interval_ms % bucket_count != 0 {
            bucket_count = 1
        }
        bucket_count
    }

}

/// for a rule accepted by is_valid (stat_interval_ms != 0) the three `*Breaker::new` constructors call
/// CounterLeapArray::new(count, interval) with arguments it accepts, and the bucket length is >= 1,
/// so neither their `unwrap()` nor a later division by the bucket length can panic.
pub proof fn lemma_valid_rule_constructs(interval: u32, configured: u32)
    requires interval != 0,
    ensures ({
        let r = if configured == 0 || interval % configured != 0 { 1u32 } else { configured };
        leap_array_new_ok(r, interval) && interval / r >= 1
    }),
{
    let r = if configured == 0 || interval % configured != 0 { 1u32 } else { configured };
    if r != 1 {
        vstd::arithmetic::div_mod::lemma_fundamental_div_mod(interval as int, r as int);
        assert(interval as int / r as int >= 1) by(nonlinear_arith)
            requires interval as int == r as int * (interval as int / r as int) + (interval as int % r as int),
                interval as int % r as int == 0, interval > 0, r > 0;
    }
}

proof fn verif_canary() { assert(false); }

} // verus!
fn main() {}
