// Verus unit: hotspot::ConcurrencyStatSlot::{on_entry_pass, on_completed} for ANY controller list (C05, hotspot part:
// "in-flight per parameter value": +1 when an entry passes, -1 when it completes, for exactly the same cells).
// The two bodies are extracted from the current source on every run. Controllers, the per-value counter table and the
// context are abstract stand-ins with assumed contracts; the two atomic updates append to a ghost trace.
use vstd::prelude::*;
verus! {
#[derive(Structural, PartialEq, Eq, Clone, Copy)]
pub enum MetricType { Concurrency, QPS }

pub mod tr {
use vstd::prelude::*;
use std::sync::Arc;
use super::MetricType;
pub enum Ordering { SeqCst }
pub struct Rule { pub metric_type: MetricType }
#[verifier::external_body] pub struct ParamKey { _p: u8 }
#[verifier::external_body] pub struct Cell { _p: u8 }
#[verifier::external_body] pub struct CounterMap { _p: u8 }
pub struct ParamsMetric { pub concurrency_counter: CounterMap }
#[verifier::external_body] pub struct Controller { _p: u8 }
#[verifier::external_body] pub struct ResourceWrapper { _p: u8 }
#[verifier::external_body] pub struct EntryContext { _p: u8 }

/// one atomic update of a per-value in-flight cell
pub struct Ev { pub cell: int, pub delta: int }
pub type Trace = Ghost<Seq<Ev>>;

impl Cell {
    pub uninterp spec fn id(&self) -> int;
    #[verifier::external_body] pub fn fetch_add(&self, Tracked(tr): Tracked<&mut Trace>, n: u64, o: Ordering) -> (r: u64)
        ensures final(tr)@ == old(tr)@.push(Ev { cell: self.id(), delta: n as int }) { unimplemented!() }
    #[verifier::external_body] pub fn fetch_sub(&self, Tracked(tr): Tracked<&mut Trace>, n: u64, o: Ordering) -> (r: u64)
        ensures final(tr)@ == old(tr)@.push(Ev { cell: self.id(), delta: -(n as int) }) { unimplemented!() }
}
impl CounterMap {
    /// the table is only read here (sequential execution: no concurrent eviction between the check and the slot)
    pub uninterp spec fn lookup(&self, k: &ParamKey) -> Option<Arc<Cell>>;
    #[verifier::external_body] pub fn get(&self, k: &ParamKey) -> (r: Option<Arc<Cell>>) ensures r == self.lookup(k) { unimplemented!() }
}
impl Controller {
    pub uninterp spec fn rule_spec(&self) -> Arc<Rule>;
    pub uninterp spec fn metric_spec(&self) -> Arc<ParamsMetric>;
    /// the parameter value this rule extracts from an entry (a function of the rule and the entry's input)
    pub uninterp spec fn arg_of(&self, ctx: &EntryContext) -> Option<ParamKey>;
    #[verifier::external_body] pub fn rule(&self) -> (r: &Arc<Rule>) ensures *r == self.rule_spec() { unimplemented!() }
    #[verifier::external_body] pub fn metric(&self) -> (r: &Arc<ParamsMetric>) ensures *r == self.metric_spec() { unimplemented!() }
    #[verifier::external_body] pub fn extract_args(&self, ctx: &EntryContext) -> (r: Option<ParamKey>) ensures r == self.arg_of(ctx) { unimplemented!() }
}
impl ResourceWrapper {
    pub uninterp spec fn name_of(&self) -> &String;
    #[verifier::external_body] pub fn name(&self) -> (r: &String) ensures r == self.name_of() { unimplemented!() }
}
impl EntryContext {
    pub uninterp spec fn name_spec(&self) -> &String;
    #[verifier::external_body] pub fn resource(&self) -> (r: &ResourceWrapper) ensures r.name_of() == self.name_spec() { unimplemented!() }
}
pub uninterp spec fn list_for(name: &String) -> Seq<Arc<Controller>>;
#[verifier::external_body]
pub fn get_traffic_controller_list_for(name: &String) -> (r: Vec<Arc<Controller>>) ensures r@ == list_for(name) { unimplemented!() }

/// stands for the by-value iteration of `for tc in tcs` (Verus for-loops do not support `continue`): the idx-th element
#[verifier::external_body]
pub fn vec_take(v: &Vec<Arc<Controller>>, i: usize) -> (r: Arc<Controller>) requires i < v.len() ensures r == v@[i as int] { v[i].clone() }
/// the in-flight cell controller `tc` tracks for this entry, if any: concurrency rule, a value is extracted, the value is in the table
pub open spec fn cell_of(tc: Arc<Controller>, ctx: &EntryContext) -> Option<Arc<Cell>> {
    if tc.rule_spec().metric_type != MetricType::Concurrency { None }
    else if tc.arg_of(ctx) is None { None }
    else { tc.metric_spec().concurrency_counter.lookup(&tc.arg_of(ctx)->Some_0) }
}
/// what the slot must have done after the first k controllers: one update of `delta` per tracked cell, in list order
pub open spec fn expected(tcs: Seq<Arc<Controller>>, ctx: &EntryContext, k: int, delta: int) -> Seq<Ev> decreases k {
    if k <= 0 { Seq::empty() } else {
        let prev = expected(tcs, ctx, k - 1, delta);
        match cell_of(tcs[k - 1], ctx) { Some(c) => prev.push(Ev { cell: c.id(), delta }), None => prev }
    }
}
} // mod tr
use tr::*;
use std::sync::Arc;

pub struct ConcurrencyStatSlot {}
impl ConcurrencyStatSlot {
//@extract-fn file=core/hotspot/concurrency_stat_slot.rs fn=on_entry_pass within=`impl StatSlot for ConcurrencyStatSlot`
//@ subst: `(&self, ctx: &EntryContext)` => `(&self, Tracked(tr): Tracked<&mut Trace>, ctx: &EntryContext)`
//@ subst: `for tc in tcs {` => `let mut idx: usize = 0; while idx < tcs.len() { let tc = vec_take(&tcs, idx); idx += 1;`
//@ subst: `counter.fetch_add(` => `counter.fetch_add(Tracked(tr), `
//@ requires: old(tr)@.len() == 0
//@ ensures: final(tr)@ =~= expected(list_for(ctx.name_spec()), ctx, list_for(ctx.name_spec()).len() as int, 1)
//@ invariant[0]: tcs@ == list_for(ctx.name_spec())
//@ invariant[0]: idx <= tcs.len()
//@ invariant[0]: tr@ =~= expected(list_for(ctx.name_spec()), ctx, idx as int, 1)
//@ decreases[0]: tcs.len() - idx
//@end

//@extract-fn file=core/hotspot/concurrency_stat_slot.rs fn=on_completed within=`impl StatSlot for ConcurrencyStatSlot`
//@ subst: `(&self, ctx: &mut EntryContext)` => `(&self, Tracked(tr): Tracked<&mut Trace>, ctx: &mut EntryContext)`
//@ subst: `for tc in tcs {` => `let mut idx: usize = 0; while idx < tcs.len() { let tc = vec_take(&tcs, idx); idx += 1;`
//@ subst: `counter.fetch_sub(` => `counter.fetch_sub(Tracked(tr), `
//@ requires: old(tr)@.len() == 0
//@ ensures: final(tr)@ =~= expected(list_for(old(ctx).name_spec()), old(ctx), list_for(old(ctx).name_spec()).len() as int, -1)
//@ ensures: *final(ctx) == *old(ctx)
//@ invariant[0]: tcs@ == list_for(old(ctx).name_spec())
//@ invariant[0]: idx <= tcs.len()
//@ invariant[0]: tr@ =~= expected(list_for(old(ctx).name_spec()), old(ctx), idx as int, -1)
//@ decreases[0]: tcs.len() - idx
//@ invariant[0]: *ctx == *old(ctx)
//@end
}

proof fn verif_canary() { assert(false); }

} // verus!
fn main() {}
