//! Support code shared by the /verif Kani harness modules (compiled only under cfg(kani)).
//! Everything here is either a *stub* (an assumed contract for a callee, listed in the evidence as
//! trusted) or ghost state used by harnesses.
use std::fmt::{Debug, Display};

/// `anyhow::Error::msg` stub for obligations whose contract says "returns Ok on this domain":
/// reaching an error constructor refutes the contract; the error object is never built.
pub fn no_error_expected<M>(_m: M) -> crate::Error
where
    M: Display + Debug + Send + Sync + 'static,
{
    kani::assert(false, "contract: no Err on this domain");
    kani::assume(false);
    loop {}
}

/// `get_total_memory_size` stub: arbitrary value (keeps sysinfo/rayon out of the formula).
pub fn any_total_memory() -> u64 {
    kani::any()
}

/// symbolic clock (ms). Harnesses set it; `curr_time_millis` is stubbed by `clock_ms`.
pub static mut CLOCK_MS: u64 = 0;
pub fn clock_ms() -> u64 {
    unsafe { CLOCK_MS }
}
pub fn set_clock_ms(t: u64) {
    unsafe { CLOCK_MS = t }
}
/// symbolic clock (ns) for `curr_time_nanos`.
pub static mut CLOCK_NS: i128 = 0;
pub fn clock_ns() -> i128 {
    unsafe { CLOCK_NS }
}
pub fn set_clock_ns(t: i128) {
    unsafe { CLOCK_NS = t }
}

/// recorder for `utils::sleep_for_ns` / `sleep_for_ms` stubs
pub static mut SLEEP_CALLS: u32 = 0;
pub static mut SLEEP_LAST_NS: u64 = 0;
pub static mut SLEEP_TOTAL_NS: u128 = 0;
pub fn sleep_ns_recorder(ns: u64) {
    unsafe {
        SLEEP_CALLS += 1;
        SLEEP_LAST_NS = ns;
        SLEEP_TOTAL_NS += ns as u128;
    }
}
