//! Support code shared by the /verif Kani harness modules (compiled only under cfg(kani)).
//! Everything here is either a *stub* (an assumed contract for a callee, listed in the evidence as
//! trusted) or ghost state used by harnesses.
use std::fmt::{Debug, Display};

/// `anyhow::Error::msg` stub for obligations whose contract says "returns Ok on this domain":
/// reaching an error constructor refutes the contract; the error object is never built.
pub fn no_error_expected<M>(_m: M) -> crate::Error
where
    M: Display + Debug + Send + Sync + 'static,
{
    kani::assert(false, "contract: no Err on this domain");
    kani::assume(false);
    loop {}
}

/// `anyhow::Error::msg` stub for obligations whose contract is "Err exactly outside the accepted domain":
/// the harness sets ERR_ALLOWED before the call; constructing an error while it is false refutes the contract
/// ("Err only if not accepted"); the harness asserts acceptance after an Ok return ("Ok only if accepted").
/// The error object is never built (the path ends here), which keeps anyhow's vtable/backtrace machinery out of CBMC.
pub static mut ERR_ALLOWED: bool = false;
pub fn error_iff_allowed<M>(_m: M) -> crate::Error
where
    M: Display + Debug + Send + Sync + 'static,
{
    kani::assert(unsafe { ERR_ALLOWED }, "contract: Err returned on an input the specification accepts");
    kani::cover!(true, "error path reachable");
    kani::assume(false);
    loop {}
}
pub fn allow_err(b: bool) {
    unsafe { ERR_ALLOWED = b }
}

/// `get_total_memory_size` stub: arbitrary value (keeps sysinfo/rayon out of the formula).
pub fn any_total_memory() -> u64 {
    kani::any()
}

/// symbolic clock (ms). Harnesses set it; `curr_time_millis` is stubbed by `clock_ms`.
pub static mut CLOCK_MS: u64 = 0;
pub fn clock_ms() -> u64 {
    unsafe { CLOCK_MS }
}
pub fn set_clock_ms(t: u64) {
    unsafe { CLOCK_MS = t }
}
/// symbolic clock (ns) for `curr_time_nanos`.
pub static mut CLOCK_NS: i128 = 0;
pub fn clock_ns() -> i128 {
    unsafe { CLOCK_NS }
}
pub fn set_clock_ns(t: i128) {
    unsafe { CLOCK_NS = t }
}

/// recorder for `utils::sleep_for_ns` / `sleep_for_ms` stubs
pub static mut SLEEP_CALLS: u32 = 0;
pub static mut SLEEP_LAST_NS: u64 = 0;
pub static mut SLEEP_TOTAL_NS: u128 = 0;
pub fn sleep_ns_recorder(ns: u64) {
    unsafe {
        SLEEP_CALLS += 1;
        SLEEP_LAST_NS = ns;
        SLEEP_TOTAL_NS += ns as u128;
    }
}

/// stub for `format_time_nanos_curr` (the default resource name)
pub fn empty_string() -> String {
    String::new()
}

// ------------------------------------------------------------------------------------------------
// Recording statistic node: implements every stat seam (ReadStat, WriteStat, ConcurrencyStat,
// MetricItemRetriever, StatNode) with harness-chosen readings and call recording.
// ------------------------------------------------------------------------------------------------
use crate::base::{ConcurrencyStat, MetricEvent, MetricItem, MetricItemRetriever, ReadStat, StatNode, TimePredicate, WriteStat};
use std::sync::atomic::{AtomicU32, AtomicU64, Ordering::SeqCst};
use std::sync::Arc;

pub fn ev_idx(e: MetricEvent) -> usize {
    match e {
        MetricEvent::Pass => 0,
        MetricEvent::Block => 1,
        MetricEvent::Complete => 2,
        MetricEvent::Error => 3,
        MetricEvent::Rt => 4,
    }
}

#[derive(Debug, Default)]
pub struct RecNode {
    // readings handed to the code under contract
    pub sum: [AtomicU64; 5],
    pub qps_bits: [AtomicU64; 5],
    pub qps_prev_bits: [AtomicU64; 5],
    pub min_rt_bits: AtomicU64,
    pub avg_rt_bits: AtomicU64,
    pub conc: AtomicU32,
    // recording
    pub add_calls: [AtomicU32; 5],
    pub add_total: [AtomicU64; 5],
    pub upd_conc_calls: AtomicU32,
    pub inc_calls: AtomicU32,
    pub dec_calls: AtomicU32,
    pub reads: AtomicU32,
    /// global sequence number of the last write call (order of effects across nodes)
    pub last_seq: AtomicU32,
}

pub static SEQ: AtomicU32 = AtomicU32::new(0);
pub fn next_seq() -> u32 {
    SEQ.fetch_add(1, SeqCst) + 1
}

impl RecNode {
    pub fn new() -> Self {
        Self::default()
    }
    pub fn writes(&self) -> u32 {
        let mut n = self.upd_conc_calls.load(SeqCst) + self.inc_calls.load(SeqCst) + self.dec_calls.load(SeqCst);
        n += self.add_calls[0].load(SeqCst) + self.add_calls[1].load(SeqCst) + self.add_calls[2].load(SeqCst)
            + self.add_calls[3].load(SeqCst) + self.add_calls[4].load(SeqCst);
        n
    }
}
impl ReadStat for RecNode {
    fn qps(&self, e: MetricEvent) -> f64 {
        self.reads.fetch_add(1, SeqCst);
        f64::from_bits(self.qps_bits[ev_idx(e)].load(SeqCst))
    }
    fn qps_previous(&self, e: MetricEvent) -> f64 {
        self.reads.fetch_add(1, SeqCst);
        f64::from_bits(self.qps_prev_bits[ev_idx(e)].load(SeqCst))
    }
    fn sum(&self, e: MetricEvent) -> u64 {
        self.reads.fetch_add(1, SeqCst);
        self.sum[ev_idx(e)].load(SeqCst)
    }
    fn min_rt(&self) -> f64 {
        self.reads.fetch_add(1, SeqCst);
        f64::from_bits(self.min_rt_bits.load(SeqCst))
    }
    fn avg_rt(&self) -> f64 {
        self.reads.fetch_add(1, SeqCst);
        f64::from_bits(self.avg_rt_bits.load(SeqCst))
    }
}
impl WriteStat for RecNode {
    fn add_count(&self, e: MetricEvent, count: u64) {
        self.add_calls[ev_idx(e)].fetch_add(1, SeqCst);
        let t = self.add_total[ev_idx(e)].load(SeqCst);
        self.add_total[ev_idx(e)].store(t.wrapping_add(count), SeqCst);
        self.last_seq.store(next_seq(), SeqCst);
    }
    fn update_concurrency(&self, _c: u32) {
        self.upd_conc_calls.fetch_add(1, SeqCst);
    }
}
impl ConcurrencyStat for RecNode {
    fn current_concurrency(&self) -> u32 {
        self.reads.fetch_add(1, SeqCst);
        self.conc.load(SeqCst)
    }
    fn increase_concurrency(&self) {
        self.inc_calls.fetch_add(1, SeqCst);
        let c = self.conc.load(SeqCst);
        self.conc.store(c.wrapping_add(1), SeqCst);
        self.last_seq.store(next_seq(), SeqCst);
    }
    fn decrease_concurrency(&self) {
        self.dec_calls.fetch_add(1, SeqCst);
        let c = self.conc.load(SeqCst);
        self.conc.store(c.wrapping_sub(1), SeqCst);
        self.last_seq.store(next_seq(), SeqCst);
    }
}
impl MetricItemRetriever for RecNode {
    fn metrics_on_condition(&self, _p: &TimePredicate) -> Vec<MetricItem> {
        Vec::new()
    }
}
impl StatNode for RecNode {
    fn generate_read_stat(&self, _sample_count: u32, _interval_ms: u32) -> crate::Result<Arc<dyn ReadStat>> {
        kani::assert(false, "generate_read_stat is not expected in this obligation");
        Ok(Arc::new(RecNode::new()))
    }
}

/// `std::sync::Once::call_once` stub: runs the closure unconditionally. Sequential harnesses only; used to keep the
/// futex/queue state machine of Once (lazy_static initialisation, log-once helpers) out of the formula. A lazy value
/// may therefore be initialised more than once, which is unobservable for the immutable lazies of this crate.
pub fn once_stub<F: FnOnce()>(_s: &std::sync::Once, f: F) {
    f()
}

/// stub for the private `Arc::drop_slow` (the path taken when the last strong reference goes away): leak instead of
/// free. CBMC resolves the drop-in-place slot of a trait-object vtable to every drop glue of the program, which exhausts
/// memory; with this stub reference counts still move exactly, only deallocation (and Drop of the pointee) is skipped.
/// Obligations that depend on a Drop impl (BreakerBase) opt out with `//@keep-drop`.
pub fn arc_drop_slow_noop<T: ?Sized, A: std::alloc::Allocator>(_s: &mut std::sync::Arc<T, A>) {}

/// stub for the const fn `String::new`: same value, but built at run time. Dropping the *constant* `String::new()`
/// makes Kani read a non-zero capacity and report spurious allocator failures (measured in system::can_pass_check).
pub fn string_new_runtime() -> String {
    String::with_capacity(0)
}

/// stub for the private `core::result::unwrap_failed` (the cold path of `Result::unwrap/expect`): still a failed
/// assertion, but without formatting the error value with `{:?}` (that formatting code dominated several obligations)
pub fn unwrap_failed_stub(_msg: &str, _error: &dyn std::fmt::Debug) -> ! {
    kani::assert(false, "called `Result::unwrap()` on an `Err` value");
    kani::assume(false);
    loop {}
}
