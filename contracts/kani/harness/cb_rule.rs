//@target core/circuitbreaker/rule.rs
// C12/C11: circuit-breaker Rule::is_valid is exactly the documented predicate and never panics; equality ignores the id
#[cfg(kani)]
pub(crate) mod verif_cr {
    use super::*;
    use crate::verif_support as vs;
    fn fmt_stub(_a: std::fmt::Arguments<'_>) -> String {
        String::new()
    }
    pub(crate) fn any_rule(resource: &str) -> Rule {
        let k: u8 = kani::any();
        kani::assume(k < 3);
        Rule {
            id: String::new(),
            resource: String::from(resource),
            strategy: match k {
                0 => BreakerStrategy::SlowRequestRatio,
                1 => BreakerStrategy::ErrorRatio,
                _ => BreakerStrategy::ErrorCount,
            },
            retry_timeout_ms: kani::any(),
            min_request_amount: kani::any(),
            stat_interval_ms: kani::any(),
            stat_sliding_window_bucket_count: kani::any(),
            max_allowed_rt_ms: kani::any(),
            threshold: kani::any(),
        }
    }
    #[kani::proof]
    #[kani::unwind(3)]
    #[kani::stub(crate::core::system_metric::get_total_memory_size, vs::any_total_memory)]
    #[kani::stub(std::backtrace::Backtrace::capture, std::backtrace::Backtrace::disabled)]
    #[kani::stub(anyhow::Error::msg, vs::error_iff_allowed)]
    #[kani::stub(alloc::fmt::format, fmt_stub)]
    fn cr_is_valid() {
        let r = any_rule("r");
        kani::assume(r.stat_sliding_window_bucket_count <= 8); // symbolic divisor in the (log-only) divisibility test
        let valid = r.stat_interval_ms != 0
            && r.retry_timeout_ms != 0
            && !(r.threshold < 0.0)
            && !(r.strategy != BreakerStrategy::ErrorCount && r.threshold > 1.0);
        vs::allow_err(!valid);
        kani::cover!(valid && r.strategy == BreakerStrategy::ErrorCount && r.threshold > 1.0);
        kani::cover!(valid && r.strategy == BreakerStrategy::ErrorRatio && r.threshold == 1.0);
        let res = r.is_valid();
        assert!(res.is_ok() && valid);
    }
    #[kani::proof]
    #[kani::unwind(3)]
    #[kani::stub(crate::core::system_metric::get_total_memory_size, vs::any_total_memory)]
    #[kani::stub(std::backtrace::Backtrace::capture, std::backtrace::Backtrace::disabled)]
    #[kani::stub(anyhow::Error::msg, vs::error_iff_allowed)]
    #[kani::stub(alloc::fmt::format, fmt_stub)]
    fn cr_is_valid_empty_name_refused() {
        let r = any_rule("");
        kani::assume(r.stat_sliding_window_bucket_count <= 8);
        vs::allow_err(true);
        kani::cover!(true);
        assert!(!r.is_valid().is_ok(), "a rule without resource name must be refused");
    }
    /// equality ignores the id; every enforcement field matters (max_allowed_rt only for the slow-request strategy);
    /// is_stat_reusable compares exactly the window-shaping fields
    #[kani::proof]
    #[kani::unwind(3)]
    #[kani::stub(crate::core::system_metric::get_total_memory_size, vs::any_total_memory)]
    #[kani::stub(std::backtrace::Backtrace::capture, std::backtrace::Backtrace::disabled)]
    #[kani::stub(anyhow::Error::msg, vs::error_iff_allowed)]
    fn cr_eq_and_reusable() {
        let a = any_rule("r");
        kani::assume(a.threshold == a.threshold);
        let mut b = a.clone();
        b.id = String::from("other");
        assert!(a == b && b == a);
        let mut c = any_rule("r");
        c.id = String::from("x");
        let same = c.strategy == a.strategy
            && c.retry_timeout_ms == a.retry_timeout_ms
            && c.min_request_amount == a.min_request_amount
            && c.stat_interval_ms == a.stat_interval_ms
            && c.stat_sliding_window_bucket_count == a.stat_sliding_window_bucket_count
            && c.threshold == a.threshold
            && (a.strategy != BreakerStrategy::SlowRequestRatio || c.max_allowed_rt_ms == a.max_allowed_rt_ms);
        assert!((a == c) == same);
        assert!(a.is_stat_reusable(&c) == (a.strategy == c.strategy && a.stat_interval_ms == c.stat_interval_ms
            && a.stat_sliding_window_bucket_count == c.stat_sliding_window_bucket_count));
        kani::cover!(a == c);
        kani::cover!(a != c && a.is_stat_reusable(&c));
    }
}
