//@target core/system/slot.rs
// C09: system protection. The global inbound node's readings, the system load / CPU readings and the rule table are
// replaced (kani::stub) by harness-chosen symbolic values; the decision code is the real one.
#[cfg(kani)]
pub(crate) mod verif_sys {
    use super::*;
    use crate::base::{ResourceType, ResourceWrapper, SentinelInput, SentinelRule};
    use crate::stat::ResourceNode;
    use crate::verif_support as vs;

    static mut QPS: f64 = 0.0;
    static mut CONC: u32 = 0;
    static mut AVG_RT: f64 = 0.0;
    static mut MIN_RT: f64 = 0.0;
    static mut MAX_COMPLETE: f64 = 0.0;
    static mut LOAD: f64 = 0.0;
    static mut CPU: f32 = 0.0;
    static mut READS: u32 = 0;
    static mut RULES: Option<Vec<Arc<Rule>>> = None;

    fn stub_qps(_s: &ResourceNode, e: MetricEvent) -> f64 {
        kani::assert(matches!(e, MetricEvent::Pass), "inbound QPS rule must read the Pass rate");
        unsafe {
            READS += 1;
            QPS
        }
    }
    fn stub_conc(_s: &ResourceNode) -> u32 {
        unsafe {
            READS += 1;
            CONC
        }
    }
    fn stub_avg_rt(_s: &ResourceNode) -> f64 {
        unsafe {
            READS += 1;
            AVG_RT
        }
    }
    fn stub_min_rt(_s: &ResourceNode) -> f64 {
        unsafe {
            READS += 1;
            MIN_RT
        }
    }
    fn stub_max_avg(_s: &ResourceNode, e: MetricEvent) -> f64 {
        kani::assert(matches!(e, MetricEvent::Complete), "BBR capacity estimate must use the Complete rate");
        unsafe {
            READS += 1;
            MAX_COMPLETE
        }
    }
    fn stub_load() -> f64 {
        unsafe {
            READS += 1;
            LOAD
        }
    }
    fn stub_cpu() -> f32 {
        unsafe {
            READS += 1;
            CPU
        }
    }
    fn stub_inbound_node() -> Arc<ResourceNode> {
        // a fresh node per call: all its readings are stubbed, so its identity is irrelevant
        let n = Arc::new(ResourceNode::new(String::new(), ResourceType::Common));
        std::mem::forget(n.clone());
        n
    }
    fn stub_get_rules() -> Vec<Arc<Rule>> {
        unsafe {
            match &*std::ptr::addr_of!(RULES) {
                Some(v) => v.clone(),
                None => Vec::new(),
            }
        }
    }
    fn cfg_two() -> u32 {
        2
    }
    fn cfg_1024() -> u32 {
        1024
    }

    fn finite_nonneg(x: f64) -> bool {
        x >= 0.0 && x <= 1.0e12
    }
    /// arbitrary finite, non-negative readings (NaN readings/thresholds are outside the "valid rule" premise)
    fn any_readings() {
        let q: f64 = kani::any();
        let a: f64 = kani::any();
        let m: f64 = kani::any();
        let mc: f64 = kani::any();
        let l: f64 = kani::any();
        let c: f32 = kani::any();
        kani::assume(finite_nonneg(q) && finite_nonneg(a) && finite_nonneg(m) && finite_nonneg(mc) && finite_nonneg(l));
        kani::assume(c >= 0.0 && c <= 100.0);
        unsafe {
            QPS = q;
            CONC = kani::any();
            AVG_RT = a;
            MIN_RT = m;
            MAX_COMPLETE = mc;
            LOAD = l;
            CPU = c;
            READS = 0;
        }
    }
    fn any_rule() -> Arc<Rule> {
        let k: u8 = kani::any();
        kani::assume(k < 5);
        rule_of(k)
    }
    fn rule_of(k: u8) -> Arc<Rule> {
        let metric_type = match k {
            0 => MetricType::Load,
            1 => MetricType::AvgRT,
            2 => MetricType::Concurrency,
            3 => MetricType::InboundQPS,
            _ => MetricType::CpuUsage,
        };
        let threshold: f64 = kani::any();
        kani::assume(finite_nonneg(threshold));
        let strategy = if kani::any() { AdaptiveStrategy::BBR } else { AdaptiveStrategy::NoAdaptive };
        let r = Arc::new(Rule { id: String::new(), metric_type, threshold, strategy });
        std::mem::forget(r.clone());
        r
    }
    /// the statement's decision table: does this rule trip on the current readings, and which value is reported
    fn trips(rule: &Rule) -> (bool, f64) {
        unsafe {
            let bbr_over_capacity = (CONC as f64) > 1.0 && (CONC as f64) > MAX_COMPLETE * MIN_RT / 1000.0;
            match rule.metric_type {
                MetricType::InboundQPS => (QPS >= rule.threshold, QPS),
                MetricType::Concurrency => ((CONC as f64) >= rule.threshold, CONC as f64),
                MetricType::AvgRT => (AVG_RT >= rule.threshold, AVG_RT),
                MetricType::Load => (
                    LOAD > rule.threshold && (rule.strategy != AdaptiveStrategy::BBR || bbr_over_capacity),
                    LOAD,
                ),
                MetricType::CpuUsage => (
                    (CPU as f64) > rule.threshold && (rule.strategy != AdaptiveStrategy::BBR || bbr_over_capacity),
                    CPU as f64,
                ),
            }
        }
    }

    macro_rules! sys_harness {
        ($name:ident, $body:expr, $unw:expr) => {
            #[kani::proof]
            #[kani::unwind($unw)]
            #[kani::stub(crate::core::system_metric::get_total_memory_size, vs::any_total_memory)]
            #[kani::stub(std::backtrace::Backtrace::capture, std::backtrace::Backtrace::disabled)]
            #[kani::stub(anyhow::Error::msg, vs::no_error_expected)]
            #[kani::stub(crate::utils::time::format_time_nanos_curr, vs::empty_string)]
            #[kani::stub(crate::utils::time::curr_time_millis, vs::clock_ms)]
            #[kani::stub(crate::core::config::global_stat_sample_count_total, cfg_two)]
            #[kani::stub(crate::core::config::global_stat_interval_ms_total, cfg_1024)]
            #[kani::stub(crate::core::config::metric_stat_sample_count, cfg_two)]
            #[kani::stub(crate::core::config::metric_stat_interval_ms, cfg_1024)]
            #[kani::stub(crate::core::stat::node_storage::inbound_node, stub_inbound_node)]
            #[kani::stub(crate::core::system::rule_manager::get_rules, stub_get_rules)]
            #[kani::stub(<ResourceNode as ReadStat>::qps, stub_qps)]
            #[kani::stub(<ResourceNode as ReadStat>::avg_rt, stub_avg_rt)]
            #[kani::stub(<ResourceNode as ReadStat>::min_rt, stub_min_rt)]
            #[kani::stub(<ResourceNode as ConcurrencyStat>::current_concurrency, stub_conc)]
            #[kani::stub(ResourceNode::max_avg, stub_max_avg)]
            #[kani::stub(crate::core::system_metric::current_load, stub_load)]
            #[kani::stub(crate::core::system_metric::current_cpu_usage, stub_cpu)]
            #[kani::stub(std::string::String::new, vs::string_new_runtime)]
            fn $name() {
                $body
            }
        };
    }

    // can_pass_check: for every metric type x strategy x threshold x readings, passed == !trips, and on a trip the
    // snapshot holds the observed value
    sys_harness!(
        sys_can_pass_check_decision_table,
        {
            any_readings();
            let rule = any_rule();
            let (passed, _msg, snap) = can_pass_check(&rule);
            let (trip, observed) = trips(&rule);
            assert!(passed == !trip);
            if trip {
                let s = snap.unwrap();
                let v = unsafe { *(Arc::as_ptr(&s) as *const f64) };
                assert!(v.to_bits() == observed.to_bits());
            }
            kani::cover!(trip && matches!(rule.metric_type, MetricType::Load) && rule.strategy == AdaptiveStrategy::BBR);
            kani::cover!(!trip && matches!(rule.metric_type, MetricType::CpuUsage) && rule.strategy == AdaptiveStrategy::BBR && unsafe { CPU as f64 > rule.threshold });
            kani::cover!(trip && matches!(rule.metric_type, MetricType::InboundQPS) && unsafe { QPS == rule.threshold });
            kani::cover!(!trip && matches!(rule.metric_type, MetricType::Load) && unsafe { LOAD == rule.threshold });
        },
        7
    );

    fn mk_ctx(inbound: bool) -> EntryContext {
        crate::core::base::context::verif_ctx::mk_ctx("r", inbound, 1, 0, None)
    }

    // AdaptiveSlot::check, outbound: context untouched, no metric read, whatever the rules say
    sys_harness!(
        sys_slot_outbound_untouched,
        {
            any_readings();
            let mut rv = Vec::with_capacity(2);
            rv.push(any_rule());
            rv.push(any_rule());
            unsafe { RULES = Some(rv) };
            let mut ctx = mk_ctx(false);
            let r = AdaptiveSlot {}.check(&mut ctx);
            assert!(r.is_pass() && ctx.result().is_pass());
            assert!(unsafe { READS } == 0);
            std::mem::forget(ctx);
            kani::cover!(true);
        },
        7
    );

    // AdaptiveSlot::check, inbound, two rules: Blocked iff some rule trips; the block is a SystemFlow block carrying the
    // FIRST tripping rule and its observed value; ctx.result() equals the returned value
    sys_harness!(
        sys_slot_inbound_two_rules,
        {
            any_readings();
            let r0 = any_rule();
            let r1 = any_rule();
            let mut rv = Vec::with_capacity(2);
            rv.push(r0.clone());
            rv.push(r1.clone());
            unsafe { RULES = Some(rv) };
            let mut ctx = mk_ctx(true);
            let r = AdaptiveSlot {}.check(&mut ctx);
            let (t0, o0) = trips(&r0);
            let (t1, o1) = trips(&r1);
            if !t0 && !t1 {
                assert!(r.is_pass() && ctx.result().is_pass());
            } else {
                assert!(r.is_blocked() && ctx.result().is_blocked());
                let e = r.block_err().unwrap();
                assert!(e.block_type() == BlockType::SystemFlow);
                let (want_rule, want_obs) = if t0 { (r0.clone(), o0) } else { (r1.clone(), o1) };
                let want_dyn: Arc<dyn SentinelRule> = want_rule;
                assert!(Arc::ptr_eq(&e.triggered_rule().unwrap(), &want_dyn));
                let tv = e.triggered_value().unwrap();
                let v = unsafe { *(Arc::as_ptr(&tv) as *const f64) };
                assert!(v.to_bits() == want_obs.to_bits());
            }
            std::mem::forget(ctx);
            kani::cover!(!t0 && t1);
            kani::cover!(t0 && t1);
            kani::cover!(!t0 && !t1);
        },
        7
    );

    fn table_for(k: u8) {
        any_readings();
        let rule = rule_of(k);
        let (passed, msg, snap) = can_pass_check(&rule);
        let (trip, observed) = trips(&rule);
        assert!(passed == !trip);
        if trip {
            let s = snap.unwrap();
            let v = unsafe { *(Arc::as_ptr(&s) as *const f64) };
            assert!(v.to_bits() == observed.to_bits());
            std::mem::forget(s);
        } else {
            std::mem::forget(snap);
        }
        std::mem::forget(msg);
        kani::cover!(trip);
        kani::cover!(!trip);
    }
    sys_harness!(sys_table_load, { table_for(0) }, 7);
    sys_harness!(sys_table_avg_rt, { table_for(1) }, 7);
    sys_harness!(sys_table_concurrency, { table_for(2) }, 7);
    sys_harness!(sys_table_qps, { table_for(3) }, 7);
    sys_harness!(sys_table_cpu, { table_for(4) }, 7);
}
