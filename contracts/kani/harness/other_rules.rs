//@target core/isolation/rule.rs
// C12: isolation Rule::is_valid is exactly "non-empty resource and threshold != 0" and never panics
#[cfg(kani)]
pub(crate) mod verif_ir {
    use super::*;
    use crate::verif_support as vs;
    fn check(resource: &str) {
        let r = Rule { id: String::new(), resource: String::from(resource), metric_type: MetricType::Concurrency, threshold: kani::any() };
        let valid = !r.resource.is_empty() && r.threshold != 0;
        vs::allow_err(!valid);
        kani::cover!(valid);
        let res = r.is_valid();
        assert!(res.is_ok() && valid);
    }
    #[kani::proof]
    #[kani::unwind(3)]
    #[kani::stub(crate::core::system_metric::get_total_memory_size, vs::any_total_memory)]
    #[kani::stub(std::backtrace::Backtrace::capture, std::backtrace::Backtrace::disabled)]
    #[kani::stub(anyhow::Error::msg, vs::error_iff_allowed)]
    fn ir_is_valid_named() {
        check("r");
    }
    #[kani::proof]
    #[kani::unwind(3)]
    #[kani::stub(crate::core::system_metric::get_total_memory_size, vs::any_total_memory)]
    #[kani::stub(std::backtrace::Backtrace::capture, std::backtrace::Backtrace::disabled)]
    #[kani::stub(anyhow::Error::msg, vs::error_iff_allowed)]
    fn ir_is_valid_empty_name_refused() {
        let r = Rule { id: String::new(), resource: String::new(), metric_type: MetricType::Concurrency, threshold: kani::any() };
        vs::allow_err(true);
        kani::cover!(true);
        assert!(!r.is_valid().is_ok(), "a rule without resource name must be refused");
    }
}
