//@target core/hotspot/rule.rs
// C12: hotspot Rule::is_valid is exactly "non-empty resource, QPS rules have a non-zero duration, a positive index and
// a key are not given together" and never panics, for every value of the numeric fields (the override table is empty:
// std HashMap is out of reach)
#[cfg(kani)]
pub(crate) mod verif_hrule {
    use super::*;
    use crate::verif_support as vs;

    fn stub_random_state() -> std::collections::hash_map::RandomState {
        unsafe { std::mem::transmute::<[u64; 2], std::collections::hash_map::RandomState>([0, 0]) }
    }
    fn any_rule(resource: &str, key: &str) -> Rule {
        let metric_type = if kani::any() { MetricType::QPS } else { MetricType::Concurrency };
        let control_strategy = if kani::any() { ControlStrategy::Reject } else { ControlStrategy::Throttling };
        Rule {
            id: String::with_capacity(0),
            resource: String::from(resource),
            metric_type,
            control_strategy,
            param_index: kani::any(),
            param_key: String::from(key),
            threshold: kani::any(),
            max_queueing_time_ms: kani::any(),
            burst_count: kani::any(),
            duration_in_sec: kani::any(),
            params_max_capacity: kani::any(),
            specific_items: HashMap::new(),
        }
    }
    fn check(resource: &str, key: &str) {
        let r = any_rule(resource, key);
        let valid = !r.resource.is_empty()
            && !(r.metric_type == MetricType::QPS && r.duration_in_sec == 0)
            && !(r.param_index > 0 && !r.param_key.is_empty());
        // (the error stub ends the path after recording that an Err was allowed: covers go before the call)
        vs::allow_err(!valid);
        kani::cover!(valid);
        kani::cover!(!valid);
        let res = r.is_valid();
        assert!(res.is_ok() && valid);
        std::mem::forget(res);
        std::mem::forget(r);
    }
    fn check_refused(resource: &str, key: &str) {
        let r = any_rule(resource, key);
        vs::allow_err(true);
        kani::cover!(r.metric_type == MetricType::Concurrency && r.param_index == 0);
        let res = r.is_valid();
        assert!(!res.is_ok(), "a rule without resource name must be refused");
        std::mem::forget(res);
        std::mem::forget(r);
    }
    macro_rules! hrule_harness {
        ($name:ident, $body:ident, $res:expr, $key:expr) => {
            #[kani::proof]
            #[kani::unwind(3)]
            #[kani::stub(crate::core::system_metric::get_total_memory_size, vs::any_total_memory)]
            #[kani::stub(std::backtrace::Backtrace::capture, std::backtrace::Backtrace::disabled)]
            #[kani::stub(anyhow::Error::msg, vs::error_iff_allowed)]
            #[kani::stub(std::collections::hash_map::RandomState::new, stub_random_state)]
            fn $name() {
                $body($res, $key);
            }
        };
    }
    hrule_harness!(hrule_is_valid_indexed, check, "r", "");
    hrule_harness!(hrule_is_valid_keyed, check, "r", "k");
    hrule_harness!(hrule_is_valid_empty_name, check_refused, "", "");
}
