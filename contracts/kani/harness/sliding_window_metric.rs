//@target core/stat/base/sliding_window_metric.rs
// Contracts of SlidingWindowMetric (the read side) on geometries with a power-of-two bucket length (len = 1 << sh), so
// the REAL arithmetic (calculate_start_stamp, bucket_start_range) is executed. Aligned well-formed ring, `now` any time.
// Specification (from the property): the value read at `now` is computed from exactly the buckets k with
// kend - q < k <= kend, where kend is the bucket of the read time and q = read interval / array bucket length
// (the bucket-aligned read window): nothing older is reported, nothing inside is missed.
#[cfg(kani)]
pub(crate) mod verif_swm {
    use super::*;
    use crate::core::stat::verif_la::{any_aligned_ring, mk_ring_from_slots, SlotG};
    use crate::core::stat::verif_mb::{any_event, ev_index};
    use crate::verif_support as vs;

    pub(crate) struct Fix<const N: usize> {
        pub m: SlidingWindowMetric,
        pub g: [SlotG; N],
        pub kn: u64,
        pub now: u64,
        pub q: u64,
        pub sh: u32,
    }

    /// metric (sc, q << sh) over an aligned symbolic ring N x (1 << sh)
    pub(crate) fn fixture<const N: usize>(sh: u32, sc: u32, q: u32, counter_bound: u64) -> Fix<N> {
        let (now, kn, g) = any_aligned_ring::<N>(sh, counter_bound);
        let arr = Arc::new(mk_ring_from_slots::<N>(1 << sh, &g));
        // an accepted geometry must construct (the error constructor is stubbed by no_error_expected)
        let m = SlidingWindowMetric::new(sc, q << sh, arr).unwrap();
        Fix { m, g, kn, now, q: q as u64, sh }
    }

    impl<const N: usize> Fix<N> {
        /// bucket of slot i lies in the read window ending in bucket `kend`
        pub(crate) fn inside(&self, i: usize, kend: u64) -> bool {
            !self.g[i].empty && self.g[i].k <= kend && self.g[i].k + self.q > kend
        }
        pub(crate) fn expect_sum(&self, e: MetricEvent, kend: u64) -> u64 {
            let mut s = 0u64;
            for i in 0..N {
                if self.inside(i, kend) {
                    s += self.g[i].v.c[ev_index(e)];
                }
            }
            s
        }
        pub(crate) fn check_read_only(&self) {
            for i in 0..N {
                assert!(self.m.inner.array[i].start_stamp() == self.g[i].start(1 << self.sh));
                assert!(self.m.inner.array[i].value().verif_view().same(&self.g[i].v));
            }
        }
    }

    macro_rules! reader_harness {
        ($name:ident, $body:ident, $n:expr, $sh:expr, $sc:expr, $q:expr, $unw:expr) => {
            #[kani::proof]
            #[kani::unwind($unw)]
            #[kani::stub(anyhow::Error::msg, vs::no_error_expected)]
            #[kani::stub(std::backtrace::Backtrace::capture, std::backtrace::Backtrace::disabled)]
            #[kani::stub(crate::core::system_metric::get_total_memory_size, vs::any_total_memory)]
            #[kani::stub(crate::utils::time::curr_time_millis, vs::clock_ms)]
            fn $name() {
                $body::<$n>($sh, $sc, $q);
            }
        };
    }

    /// sum_with_time(now, e) == sum of counter e over exactly the buckets of the read window; read-only
    fn body_sum_with_time<const N: usize>(sh: u32, sc: u32, q: u32) {
        let f = fixture::<N>(sh, sc, q, 1u64 << 52);
        let e = any_event();
        let r = f.m.sum_with_time(f.now, e);
        assert!(r == f.expect_sum(e, f.kn));
        f.check_read_only();
        kani::cover!(r > 0);
        // an older, not yet overwritten bucket outside the window is excluded
        kani::cover!(!f.g[0].empty && !f.inside(0, f.kn) && f.g[0].v.c[ev_index(e)] > 0);
    }
    reader_harness!(swm_sum_with_time_2x512_full, body_sum_with_time, 2, 9, 2, 2, 3);
    reader_harness!(swm_sum_with_time_2x512_w1, body_sum_with_time, 2, 9, 1, 1, 3);
    reader_harness!(swm_sum_with_time_3x256_full, body_sum_with_time, 3, 8, 3, 3, 4);
    reader_harness!(swm_sum_with_time_3x256_w1, body_sum_with_time, 3, 8, 1, 1, 4);

    /// satisfied_buckets(now): exactly the slots of the read window, in slot order
    fn body_satisfied_buckets<const N: usize>(sh: u32, sc: u32, q: u32) {
        let f = fixture::<N>(sh, sc, q, u64::MAX);
        let res = f.m.satisfied_buckets(f.now);
        let mut j = 0usize;
        for i in 0..N {
            if f.inside(i, f.kn) {
                assert!(j < res.len());
                assert!(Arc::ptr_eq(&res[j], &f.m.inner.array[i]));
                j += 1;
            }
        }
        assert!(j == res.len());
        kani::cover!(res.len() == N);
        kani::cover!(res.len() == 0);
    }
    reader_harness!(swm_satisfied_buckets_2x512_full, body_satisfied_buckets, 2, 9, 2, 2, 3);

    /// ReadStat::sum / qps at the clock's time; qps == sum as f64 / (interval_ms as f64 / 1000.0), bit-exact
    fn body_read_stat_sum_qps<const N: usize>(sh: u32, sc: u32, q: u32) {
        let f = fixture::<N>(sh, sc, q, 15);
        vs::set_clock_ms(f.now);
        let e = any_event();
        let want = f.expect_sum(e, f.kn);
        assert!(ReadStat::sum(&f.m, e) == want);
        let qps = ReadStat::qps(&f.m, e);
        let im = q << sh;
        assert!(qps.to_bits() == (want as f64 / (im as f64 / 1000.0)).to_bits());
        assert!(f.m.qps_with_time(f.now, e).to_bits() == qps.to_bits());
        f.check_read_only();
        kani::cover!(want > 0);
    }
    reader_harness!(swm_read_stat_sum_qps_2x512_full, body_read_stat_sum_qps, 2, 9, 2, 2, 3);

    /// ReadStat::qps_previous: the rate of the window ending one metric bucket earlier
    fn body_read_stat_qps_previous<const N: usize>(sh: u32, sc: u32, q: u32) {
        let f = fixture::<N>(sh, sc, q, 15);
        vs::set_clock_ms(f.now);
        let e = any_event();
        let back = (q / sc) as u64; // metric bucket length in array buckets
        let want = f.expect_sum(e, f.kn - back);
        let qps = ReadStat::qps_previous(&f.m, e);
        let im = q << sh;
        assert!(qps.to_bits() == (want as f64 / (im as f64 / 1000.0)).to_bits());
        kani::cover!(want > 0);
    }
    reader_harness!(swm_read_stat_qps_previous_2x512_full, body_read_stat_qps_previous, 2, 9, 2, 2, 3);

    /// ReadStat::min_rt: minimum of min_rt over the window's buckets, MAX_RT if the window is empty
    fn body_read_stat_min_rt<const N: usize>(sh: u32, sc: u32, q: u32) {
        let f = fixture::<N>(sh, sc, q, u64::MAX);
        vs::set_clock_ms(f.now);
        let mut want = DEFAULT_STATISTIC_MAX_RT;
        for i in 0..N {
            if f.inside(i, f.kn) && f.g[i].v.min_rt < want {
                want = f.g[i].v.min_rt;
            }
        }
        let r = ReadStat::min_rt(&f.m);
        assert!(r.to_bits() == (want as f64).to_bits());
        kani::cover!(want < DEFAULT_STATISTIC_MAX_RT);
        kani::cover!(want == DEFAULT_STATISTIC_MAX_RT);
    }
    reader_harness!(swm_read_stat_min_rt_2x512_full, body_read_stat_min_rt, 2, 9, 2, 2, 3);

    /// ReadStat::avg_rt: Rt sum / Complete sum of the window (f64 division, bit-exact), 0 when nothing completed
    fn body_read_stat_avg_rt<const N: usize>(sh: u32, sc: u32, q: u32) {
        // counters <= 15: a symbolic f64 division over 2^20-sized operands did not finish in 35 minutes (measured)
        let f = fixture::<N>(sh, sc, q, 15);
        vs::set_clock_ms(f.now);
        let rt = f.expect_sum(MetricEvent::Rt, f.kn);
        let done = f.expect_sum(MetricEvent::Complete, f.kn);
        let r = ReadStat::avg_rt(&f.m);
        if done == 0 {
            assert!(r.to_bits() == 0f64.to_bits());
        } else {
            assert!(r.to_bits() == (rt as f64 / done as f64).to_bits());
        }
        kani::cover!(done == 0);
        kani::cover!(done > 1 && rt > 0);
    }
    reader_harness!(swm_read_stat_avg_rt_2x512_full, body_read_stat_avg_rt, 2, 9, 2, 2, 3);

    /// interval_s(): the read interval in seconds as an f64, for EVERY u32 interval (fractional seconds included);
    /// together with the sum obligations this pins the per-second rate qps = sum / interval_s
    #[kani::proof]
    #[kani::unwind(3)]
    #[kani::stub(anyhow::Error::msg, vs::no_error_expected)]
    #[kani::stub(std::backtrace::Backtrace::capture, std::backtrace::Backtrace::disabled)]
    #[kani::stub(crate::core::system_metric::get_total_memory_size, vs::any_total_memory)]
    fn swm_interval_s_any_interval() {
        let im: u32 = kani::any();
        let m = SlidingWindowMetric { bucket_len_ms: 1, sample_count: 1, interval_ms: im, inner: Arc::new(mk_ring_from_slots::<1>(512, &[SlotG { empty: true, k: 0, v: crate::core::stat::verif_mb::RESET_VIEW }])) };
        let r = m.interval_s();
        assert!(r.to_bits() == (im as f64 / 1000.0).to_bits());
        assert!(m.interval_ms() == im);
        std::mem::forget(m);
        kani::cover!(im == 2500);
        kani::cover!(im == 500);
    }
}
