//@target core/stat/base/metric_bucket.rs
// Contracts of MetricBucket (the per-bucket counters). Loop-free apart from the 5-element reset loop.
#[cfg(kani)]
pub(crate) mod verif_mb {
    use super::*;

    pub(crate) const EVENTS: [MetricEvent; 5] = [
        MetricEvent::Pass,
        MetricEvent::Block,
        MetricEvent::Complete,
        MetricEvent::Error,
        MetricEvent::Rt,
    ];

    /// ghost view of a bucket: the five counters, min_rt, max_concurrency
    #[derive(Clone, Copy)]
    pub(crate) struct View {
        pub c: [u64; 5],
        pub min_rt: u64,
        pub max_conc: u32,
    }
    impl View {
        /// field-wise equality (derive(PartialEq) would go through memcmp, which CBMC has to unwind byte by byte)
        pub(crate) fn same(&self, o: &View) -> bool {
            self.c[0] == o.c[0] && self.c[1] == o.c[1] && self.c[2] == o.c[2] && self.c[3] == o.c[3] && self.c[4] == o.c[4]
                && self.min_rt == o.min_rt && self.max_conc == o.max_conc
        }
    }

    pub(crate) const RESET_VIEW: View = View { c: [0; 5], min_rt: DEFAULT_STATISTIC_MAX_RT, max_conc: 0 };

    pub(crate) fn ev_index(e: MetricEvent) -> usize {
        match e {
            MetricEvent::Pass => 0,
            MetricEvent::Block => 1,
            MetricEvent::Complete => 2,
            MetricEvent::Error => 3,
            MetricEvent::Rt => 4,
        }
    }

    pub(crate) fn any_event() -> MetricEvent {
        let i: u8 = kani::any();
        kani::assume(i < 5);
        EVENTS[i as usize]
    }

    impl MetricBucket {
        /// harness-only: write an arbitrary state into the real fields (unrolled: no loop to unwind)
        pub(crate) fn verif_set(&self, v: &View) {
            self.counter[MetricEvent::Pass].store(v.c[0], Ordering::SeqCst);
            self.counter[MetricEvent::Block].store(v.c[1], Ordering::SeqCst);
            self.counter[MetricEvent::Complete].store(v.c[2], Ordering::SeqCst);
            self.counter[MetricEvent::Error].store(v.c[3], Ordering::SeqCst);
            self.counter[MetricEvent::Rt].store(v.c[4], Ordering::SeqCst);
            self.min_rt.store(v.min_rt, Ordering::SeqCst);
            self.max_concurrency.store(v.max_conc, Ordering::SeqCst);
        }
        /// harness-only: read the real fields
        pub(crate) fn verif_view(&self) -> View {
            let c = [
                self.counter[MetricEvent::Pass].load(Ordering::SeqCst),
                self.counter[MetricEvent::Block].load(Ordering::SeqCst),
                self.counter[MetricEvent::Complete].load(Ordering::SeqCst),
                self.counter[MetricEvent::Error].load(Ordering::SeqCst),
                self.counter[MetricEvent::Rt].load(Ordering::SeqCst),
            ];
            View { c, min_rt: self.min_rt.load(Ordering::SeqCst), max_conc: self.max_concurrency.load(Ordering::SeqCst) }
        }
    }

    /// harness-only constructor that writes the real fields directly (no EnumMap initialisation loop)
    pub(crate) fn bucket_from_view(v: &View) -> MetricBucket {
        MetricBucket {
            counter: EnumMap::from_array([
                AtomicU64::new(v.c[0]),
                AtomicU64::new(v.c[1]),
                AtomicU64::new(v.c[2]),
                AtomicU64::new(v.c[3]),
                AtomicU64::new(v.c[4]),
            ]),
            min_rt: AtomicU64::new(v.min_rt),
            max_concurrency: AtomicU32::new(v.max_conc),
        }
    }

    pub(crate) fn any_view(counter_bound: u64) -> View {
        let c: [u64; 5] = kani::any();
        kani::assume(c[0] <= counter_bound && c[1] <= counter_bound && c[2] <= counter_bound && c[3] <= counter_bound && c[4] <= counter_bound);
        View { c, min_rt: kani::any(), max_conc: kani::any() }
    }

    fn any_bucket() -> (MetricBucket, View) {
        let v = any_view(u64::MAX);
        (bucket_from_view(&v), v)
    }

    /// default()/new(): the reset state
    #[kani::proof]
    #[kani::unwind(7)]
    fn mb_default_is_reset_state() {
        let b = MetricBucket::new();
        assert!(b.verif_view().same(&RESET_VIEW));
        let d = MetricBucket::default();
        assert!(d.verif_view().same(&RESET_VIEW));
        kani::cover!(true);
    }

    /// add_count(e, n): counter e moves by exactly n (wrapping), nothing else moves
    #[kani::proof]
    #[kani::unwind(7)]
    fn mb_add_count() {
        let (b, v) = any_bucket();
        let e = any_event();
        let n: u64 = kani::any();
        b.add_count(e, n);
        let w = b.verif_view();
        for i in 0..5 {
            if i == ev_index(e) {
                assert!(w.c[i] == v.c[i].wrapping_add(n));
            } else {
                assert!(w.c[i] == v.c[i]);
            }
        }
        assert!(w.min_rt == v.min_rt && w.max_conc == v.max_conc);
        kani::cover!(n > 0 && ev_index(e) == 3);
    }

    /// add_rt(rt): Rt counter += rt, min_rt = min(old, rt), nothing else moves
    #[kani::proof]
    #[kani::unwind(7)]
    fn mb_add_rt() {
        let (b, v) = any_bucket();
        let rt: u64 = kani::any();
        b.add_rt(rt);
        let w = b.verif_view();
        for i in 0..4 {
            assert!(w.c[i] == v.c[i]);
        }
        assert!(w.c[4] == v.c[4].wrapping_add(rt));
        assert!(w.min_rt == if rt < v.min_rt { rt } else { v.min_rt });
        assert!(w.max_conc == v.max_conc);
        kani::cover!(rt < v.min_rt);
        kani::cover!(rt >= v.min_rt);
    }

    /// add(e, n) dispatches: Rt => add_rt, otherwise add_count
    #[kani::proof]
    #[kani::unwind(7)]
    fn mb_add_dispatch() {
        let (b, v) = any_bucket();
        let e = any_event();
        let n: u64 = kani::any();
        b.add(e, n);
        let w = b.verif_view();
        for i in 0..5 {
            if i == ev_index(e) {
                assert!(w.c[i] == v.c[i].wrapping_add(n));
            } else {
                assert!(w.c[i] == v.c[i]);
            }
        }
        if ev_index(e) == 4 {
            assert!(w.min_rt == if n < v.min_rt { n } else { v.min_rt });
        } else {
            assert!(w.min_rt == v.min_rt);
        }
        assert!(w.max_conc == v.max_conc);
        kani::cover!(ev_index(e) == 4 && n < v.min_rt);
        kani::cover!(ev_index(e) == 0);
    }

    /// get / min_rt / max_concurrency read the corresponding cell and change nothing
    #[kani::proof]
    #[kani::unwind(7)]
    fn mb_getters() {
        let (b, v) = any_bucket();
        let e = any_event();
        assert!(b.get(e) == v.c[ev_index(e)]);
        assert!(b.min_rt() == v.min_rt);
        assert!(b.max_concurrency() == v.max_conc);
        assert!(b.verif_view().same(&v));
        kani::cover!(ev_index(e) == 2);
    }

    /// update_concurrency(c): max_concurrency = max(old, c), nothing else moves
    #[kani::proof]
    #[kani::unwind(7)]
    fn mb_update_concurrency() {
        let (b, v) = any_bucket();
        let c: u32 = kani::any();
        b.update_concurrency(c);
        let w = b.verif_view();
        assert!(w.c[0] == v.c[0] && w.c[1] == v.c[1] && w.c[2] == v.c[2] && w.c[3] == v.c[3] && w.c[4] == v.c[4] && w.min_rt == v.min_rt);
        assert!(w.max_conc == if c > v.max_conc { c } else { v.max_conc });
        kani::cover!(c > v.max_conc);
        kani::cover!(c <= v.max_conc);
    }

    /// reset(): back to (0,..,0, MAX_RT, 0) from any state
    #[kani::proof]
    #[kani::unwind(7)]
    fn mb_reset() {
        let (b, _v) = any_bucket();
        b.reset();
        assert!(b.verif_view().same(&RESET_VIEW));
        kani::cover!(true);
    }
}
