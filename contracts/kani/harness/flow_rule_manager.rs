//@target core/flow/rule_manager.rs
// C11 (reduced): the reuse decision for a re-loaded flow rule against the resource's old controllers
#[cfg(kani)]
pub(crate) mod verif_frm {
    use super::*;
    use crate::core::flow::rule::verif_fr::any_rule;
    use crate::verif_support as vs;

    /// old list of N controllers built from symbolic rules of one resource:
    /// eq_idx = first index whose rule equals the new one (else MAX);
    /// reuse_stat_idx = first stat-reusable index BEFORE eq_idx (else MAX); both in range
    fn check<const N: usize>() {
        let mut olds: Vec<Arc<Controller>> = Vec::with_capacity(N);
        let mut rules: Vec<Arc<Rule>> = Vec::with_capacity(N);
        for _ in 0..N {
            let r = Arc::new(any_rule("r", "q"));
            std::mem::forget(r.clone());
            let node = Arc::new(vs::RecNode::new());
            let c = Arc::new(Controller::new(r.clone(), Arc::new(StandaloneStat::new(true, node, None))));
            std::mem::forget(c.clone());
            olds.push(c);
            rules.push(r);
        }
        let new_rule = Arc::new(any_rule("r", "q"));
        std::mem::forget(new_rule.clone());
        let (eq_idx, reuse_idx) = calculate_reuse_index_for(&new_rule, &olds);
        // reference
        let mut want_eq = usize::MAX;
        let mut want_reuse = usize::MAX;
        for i in 0..N {
            if want_eq == usize::MAX {
                if *rules[i] == *new_rule {
                    want_eq = i;
                } else if want_reuse == usize::MAX && rules[i].is_stat_reusable(&new_rule) {
                    want_reuse = i;
                }
            }
        }
        assert!(eq_idx == want_eq && reuse_idx == want_reuse);
        assert!(eq_idx == usize::MAX || eq_idx < N);
        assert!(reuse_idx == usize::MAX || reuse_idx < N);
        std::mem::forget(olds);
        std::mem::forget(rules);
        kani::cover!(eq_idx != usize::MAX && reuse_idx != usize::MAX);
        kani::cover!(eq_idx == usize::MAX && reuse_idx == N - 1);
        kani::cover!(eq_idx == 0);
    }
    macro_rules! h {
        ($name:ident, $n:expr, $unw:expr) => {
            #[kani::proof]
            #[kani::unwind($unw)]
            #[kani::stub(crate::core::system_metric::get_total_memory_size, vs::any_total_memory)]
            #[kani::stub(std::backtrace::Backtrace::capture, std::backtrace::Backtrace::disabled)]
            #[kani::stub(anyhow::Error::msg, vs::no_error_expected)]
            fn $name() {
                check::<$n>();
            }
        };
    }
    h!(frm_reuse_index_2, 2, 4);
    h!(frm_reuse_index_3, 3, 5);
}
