//@target core/flow/rule.rs
// C12: flow Rule::is_valid is exactly the documented predicate and never panics (NaN, negative, zero, huge values
// included); C11: rule equality ignores the id and is exact on the enforcement fields.
#[cfg(kani)]
pub(crate) mod verif_fr {
    use super::*;
    use crate::verif_support as vs;

    pub(crate) fn any_rule(resource: &str, ref_resource: &str) -> Rule {
        let cs: u8 = kani::any();
        kani::assume(cs < 3);
        let ct: u8 = kani::any();
        kani::assume(ct < 2);
        Rule {
            id: String::new(),
            resource: String::from(resource),
            ref_resource: String::from(ref_resource),
            calculate_strategy: match cs {
                0 => CalculateStrategy::Direct,
                1 => CalculateStrategy::WarmUp,
                _ => CalculateStrategy::MemoryAdaptive,
            },
            control_strategy: if ct == 0 { ControlStrategy::Reject } else { ControlStrategy::Throttling },
            relation_strategy: if kani::any() { RelationStrategy::Current } else { RelationStrategy::Associated },
            threshold: kani::any(),
            warm_up_period_sec: kani::any(),
            warm_up_cold_factor: kani::any(),
            max_queueing_time_ms: kani::any(),
            stat_interval_ms: kani::any(),
            low_mem_usage_threshold: kani::any(),
            high_mem_usage_threshold: kani::any(),
            mem_low_water_mark: kani::any(),
            mem_high_water_mark: kani::any(),
        }
    }
    static mut TOTAL_MEM: u64 = 0;
    fn stub_total_mem() -> u64 {
        unsafe { TOTAL_MEM }
    }

    fn check_is_valid(resource: &str, ref_resource: &str) {
        let r = any_rule(resource, ref_resource);
        let total: u64 = kani::any();
        unsafe { TOTAL_MEM = total };
        let mut valid = !r.resource.is_empty() && !(r.threshold < 0.0);
        if r.relation_strategy == RelationStrategy::Associated && r.ref_resource.is_empty() {
            valid = false;
        }
        if r.calculate_strategy == CalculateStrategy::WarmUp && (r.warm_up_period_sec == 0 || r.warm_up_cold_factor == 1) {
            valid = false;
        }
        if r.calculate_strategy == CalculateStrategy::MemoryAdaptive {
            if r.mem_low_water_mark == 0 || r.mem_high_water_mark == 0 || r.high_mem_usage_threshold == 0 || r.low_mem_usage_threshold == 0 {
                valid = false;
            }
            if r.high_mem_usage_threshold >= r.low_mem_usage_threshold
                || r.mem_high_water_mark > total
                || r.mem_low_water_mark >= r.mem_high_water_mark
            {
                valid = false;
            }
        }
        vs::allow_err(!valid);
        kani::cover!(valid && r.calculate_strategy == CalculateStrategy::MemoryAdaptive);
        kani::cover!(valid && r.threshold != r.threshold); // a NaN threshold is accepted (NaN < 0.0 is false) - noted, not a panic
        let res = r.is_valid();
        assert!(res.is_ok() && valid); // Err paths end in the error stub, which asserts !valid
    }
    macro_rules! h {
        ($name:ident, $res:expr, $rref:expr) => {
            #[kani::proof]
            #[kani::unwind(3)]
            #[kani::stub(crate::core::system_metric::get_total_memory_size, stub_total_mem)]
            #[kani::stub(std::backtrace::Backtrace::capture, std::backtrace::Backtrace::disabled)]
            #[kani::stub(anyhow::Error::msg, vs::error_iff_allowed)]
            fn $name() {
                check_is_valid($res, $rref);
            }
        };
    }
    h!(fr_is_valid_named, "r", "q");
    h!(fr_is_valid_no_ref, "r", "");

    /// empty resource name is always refused
    #[kani::proof]
    #[kani::unwind(3)]
    #[kani::stub(crate::core::system_metric::get_total_memory_size, stub_total_mem)]
    #[kani::stub(std::backtrace::Backtrace::capture, std::backtrace::Backtrace::disabled)]
    #[kani::stub(anyhow::Error::msg, vs::error_iff_allowed)]
    fn fr_is_valid_empty_name_refused() {
        let r = any_rule("", "q");
        vs::allow_err(true);
        kani::cover!(true);
        let res = r.is_valid();
        assert!(!res.is_ok(), "a rule without resource name must be refused");
    }

    /// equality ignores the id, is reflexive for non-NaN thresholds, and any difference in an enforcement field
    /// (threshold, strategies, warm-up, queueing, interval, memory marks) makes two rules different;
    /// is_stat_reusable / need_statistic are exactly the documented predicates
    #[kani::proof]
    #[kani::unwind(3)]
    #[kani::stub(crate::core::system_metric::get_total_memory_size, stub_total_mem)]
    #[kani::stub(std::backtrace::Backtrace::capture, std::backtrace::Backtrace::disabled)]
    #[kani::stub(anyhow::Error::msg, vs::error_iff_allowed)]
    fn fr_eq_and_reusable() {
        let a = any_rule("r", "q");
        let mut b = a.clone();
        b.id = String::from("other-id");
        kani::assume(a.threshold == a.threshold);
        assert!(a == b && b == a);
        let mut c = any_rule("r", "q");
        c.id = String::from("x");
        let same = c.calculate_strategy == a.calculate_strategy
            && c.control_strategy == a.control_strategy
            && c.relation_strategy == a.relation_strategy
            && c.threshold == a.threshold
            && c.warm_up_period_sec == a.warm_up_period_sec
            && c.warm_up_cold_factor == a.warm_up_cold_factor
            && c.max_queueing_time_ms == a.max_queueing_time_ms
            && c.stat_interval_ms == a.stat_interval_ms
            && c.low_mem_usage_threshold == a.low_mem_usage_threshold
            && c.high_mem_usage_threshold == a.high_mem_usage_threshold
            && c.mem_low_water_mark == a.mem_low_water_mark
            && c.mem_high_water_mark == a.mem_high_water_mark;
        assert!((a == c) == same);
        let need = |r: &Rule| r.calculate_strategy == CalculateStrategy::WarmUp || r.control_strategy == ControlStrategy::Reject;
        assert!(a.need_statistic() == need(&a));
        assert!(a.is_stat_reusable(&c) == (a.relation_strategy == c.relation_strategy && a.stat_interval_ms == c.stat_interval_ms && need(&a) && need(&c)));
        kani::cover!(a == c);
        kani::cover!(a != c && a.is_stat_reusable(&c));
    }
}
