//@target core/stat/base/bucket_leap_array.rs
// Contracts of BucketLeapArray (writers and the raw reader) on geometries with a power-of-two bucket length, so the
// REAL arithmetic helpers are executed. The callee get_bucket_of_time is replaced by its contract (proved on the real
// function by la_get_bucket_of_time_real_* and shown to satisfy the same postcondition by la_contract_stub_*).
#[cfg(kani)]
pub(crate) mod verif_bla {
    use super::*;
    use crate::core::stat::verif_la::{any_aligned_ring, contract_get_bucket_of_time, mk_ring_from_slots, SlotG};
    use crate::core::stat::verif_mb::{any_event, ev_index, View, RESET_VIEW};
    use crate::core::stat::LeapArray;
    use crate::verif_support as vs;

    pub(crate) struct Pre<const N: usize> {
        pub arr: BucketLeapArray,
        pub now: u64,
        pub kn: u64,
        pub g: [SlotG; N],
        pub sh: u32,
    }
    pub(crate) fn any_pre<const N: usize>(sh: u32) -> Pre<N> {
        let (now, kn, g) = any_aligned_ring::<N>(sh, u64::MAX);
        Pre { arr: mk_ring_from_slots::<N>(1 << sh, &g), now, kn, g, sh }
    }
    impl<const N: usize> Pre<N> {
        pub(crate) fn idx(&self) -> usize {
            (self.kn % N as u64) as usize
        }
        /// frame + "now's bucket is current": returns the view the event is applied to (kept counters or reset state)
        pub(crate) fn check_frame(&self) -> View {
            let idx = self.idx();
            for i in 0..N {
                if i != idx {
                    assert!(self.arr.array[i].start_stamp() == self.g[i].start(1 << self.sh));
                    assert!(self.arr.array[i].value().verif_view().same(&self.g[i].v));
                }
            }
            assert!(self.arr.array[idx].start_stamp() == self.kn << self.sh);
            if !self.g[idx].empty && self.g[idx].k == self.kn { self.g[idx].v } else { RESET_VIEW }
        }
    }
    pub(crate) fn expect_after_add(base: &View, e: crate::base::MetricEvent, n: u64) -> View {
        let mut w = *base;
        w.c[ev_index(e)] = w.c[ev_index(e)].wrapping_add(n);
        if ev_index(e) == 4 && n < w.min_rt {
            w.min_rt = n;
        }
        w
    }

    macro_rules! writer_harness {
        ($name:ident, $body:ident, $n:expr, $sh:expr) => {
            #[kani::proof]
            #[kani::unwind(7)]
            #[kani::stub(anyhow::Error::msg, vs::no_error_expected)]
            #[kani::stub(std::backtrace::Backtrace::capture, std::backtrace::Backtrace::disabled)]
            #[kani::stub(crate::core::system_metric::get_total_memory_size, vs::any_total_memory)]
            #[kani::stub(crate::utils::time::curr_time_millis, vs::clock_ms)]
            #[kani::stub(LeapArray::get_bucket_of_time, contract_get_bucket_of_time)]
            fn $name() {
                $body::<$n>($sh);
            }
        };
    }

    /// add_count_with_time(now, e, n): Ok; the bucket of `now` is current (restarted from the reset state if the slot
    /// was empty or held an older bucket) and its event counter moved by exactly n (Rt also lowers min_rt); every other
    /// slot untouched.
    fn body_add_count_with_time<const N: usize>(sh: u32) {
        let p = any_pre::<N>(sh);
        let e = any_event();
        let n: u64 = kani::any();
        let r = p.arr.add_count_with_time(p.now, e, n);
        assert!(r.is_ok());
        let base = p.check_frame();
        assert!(p.arr.array[p.idx()].value().verif_view().same(&expect_after_add(&base, e, n)));
        kani::cover!(!p.g[p.idx()].empty && p.g[p.idx()].k == p.kn && ev_index(e) == 0);
        kani::cover!(!p.g[p.idx()].empty && p.g[p.idx()].k < p.kn && ev_index(e) == 4);
    }
    writer_harness!(bla_add_count_with_time_2x512, body_add_count_with_time, 2, 9);
    writer_harness!(bla_add_count_with_time_3x256, body_add_count_with_time, 3, 8);

    /// update_concurrency_with_time(now, c): same shape, max_concurrency = max(base, c)
    fn body_update_concurrency_with_time<const N: usize>(sh: u32) {
        let p = any_pre::<N>(sh);
        let c: u32 = kani::any();
        let r = p.arr.update_concurrency_with_time(p.now, c);
        assert!(r.is_ok());
        let mut w = p.check_frame();
        if c > w.max_conc {
            w.max_conc = c;
        }
        assert!(p.arr.array[p.idx()].value().verif_view().same(&w));
        kani::cover!(c > 0 && !p.g[p.idx()].empty && p.g[p.idx()].k == p.kn);
    }
    writer_harness!(bla_update_concurrency_with_time_2x512, body_update_concurrency_with_time, 2, 9);

    /// WriteStat::add_count / update_concurrency: the same effect at the clock's current time, never panics
    fn body_write_stat_add_count<const N: usize>(sh: u32) {
        let p = any_pre::<N>(sh);
        vs::set_clock_ms(p.now);
        let e = any_event();
        let n: u64 = kani::any();
        WriteStat::add_count(&p.arr, e, n);
        let base = p.check_frame();
        assert!(p.arr.array[p.idx()].value().verif_view().same(&expect_after_add(&base, e, n)));
        kani::cover!(ev_index(e) == 2);
    }
    writer_harness!(bla_write_stat_add_count_2x512, body_write_stat_add_count, 2, 9);

    fn body_write_stat_update_concurrency<const N: usize>(sh: u32) {
        let p = any_pre::<N>(sh);
        vs::set_clock_ms(p.now);
        let c: u32 = kani::any();
        WriteStat::update_concurrency(&p.arr, c);
        let mut w = p.check_frame();
        if c > w.max_conc {
            w.max_conc = c;
        }
        assert!(p.arr.array[p.idx()].value().verif_view().same(&w));
        kani::cover!(c > 3);
    }
    writer_harness!(bla_write_stat_update_concurrency_2x512, body_write_stat_update_concurrency, 2, 9);

    // ---------------- raw reader over the whole array interval --------------------------------------
    /// count_with_time(now, e) = sum of counter e over the slots whose bucket k satisfies now - (k << sh) <= interval,
    /// i.e. kn - k < n, or kn - k == n and now is exactly on a bucket boundary; read-only
    fn body_count_with_time<const N: usize>(sh: u32) {
        let n = N as u64;
        let (now, kn, g) = any_aligned_ring::<N>(sh, 1u64 << 52);
        let arr = mk_ring_from_slots::<N>(1 << sh, &g);
        let e = any_event();
        let on_boundary = now == kn << sh;
        let mut expect: u64 = 0;
        for i in 0..N {
            if !g[i].empty && (kn - g[i].k < n || (kn - g[i].k == n && on_boundary)) {
                expect += g[i].v.c[ev_index(e)];
            }
        }
        let r = arr.count_with_time(now, e);
        assert!(r == expect);
        for i in 0..N {
            assert!(arr.array[i].start_stamp() == g[i].start(1 << sh));
            assert!(arr.array[i].value().verif_view().same(&g[i].v));
        }
        kani::cover!(expect > 0 && !g[0].empty && kn - g[0].k >= n);
        kani::cover!(!g[0].empty && kn - g[0].k == n && on_boundary);
    }
    #[kani::proof]
    #[kani::unwind(3)]
    #[kani::stub(crate::core::system_metric::get_total_memory_size, crate::verif_support::any_total_memory)]
    #[kani::stub(std::backtrace::Backtrace::capture, std::backtrace::Backtrace::disabled)]
    fn bla_count_with_time_2x512() {
        body_count_with_time::<2>(9);
    }
    #[kani::proof]
    #[kani::unwind(4)]
    #[kani::stub(crate::core::system_metric::get_total_memory_size, crate::verif_support::any_total_memory)]
    #[kani::stub(std::backtrace::Backtrace::capture, std::backtrace::Backtrace::disabled)]
    fn bla_count_with_time_3x256() {
        body_count_with_time::<3>(8);
    }
}
