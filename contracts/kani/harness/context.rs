//@target core/base/context.rs
// Harness-only constructor for EntryContext that writes the real fields directly. `EntryContext::new()` goes through
// `ResourceWrapper::default()` (clock formatting) and every `set_*` drops the previous value; dropping the
// never-allocated default `String` made CBMC report spurious allocator failures (measured), so obligations build their
// context here and never drop it.
#[cfg(kani)]
pub(crate) mod verif_ctx {
    use super::*;
    use crate::base::{ResourceType, TrafficType};

    pub(crate) fn mk_ctx(name: &str, inbound: bool, batch: u32, start_time: u64, node: Option<Arc<dyn StatNode>>) -> EntryContext {
        EntryContext {
            entry: None,
            start_time,
            round_trip: 0,
            resource: ResourceWrapper::new(
                String::from(name),
                ResourceType::Common,
                if inbound { TrafficType::Inbound } else { TrafficType::Outbound },
            ),
            stat_node: node,
            input: SentinelInput::new(batch, 0),
            rule_check_result: TokenResult::Pass,
            err: None,
        }
    }
}
