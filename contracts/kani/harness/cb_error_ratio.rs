//@target core/circuitbreaker/breaker/error_ratio.rs
// C03: ErrorRatioBreaker::on_request_complete is one step of the documented state machine, from every pre-state.
// The ratio is an f64 division of two counters: counters are bounded (<= 15) to keep it tractable - bounded stand-in.
#[cfg(kani)]
pub(crate) mod verif_cbr {
    use super::*;
    use crate::core::circuitbreaker::breaker::verif_cb::{any_state, install_listener, mk_base, mk_rule, notifications, stub_listeners};
    use crate::core::stat::verif_la::mk_ring_of;
    use crate::verif_support as vs;

    /// one-bucket window 1 x 1024 ms (real arithmetic executed); the slot is empty or holds a bucket not newer than now
    #[kani::proof]
    #[kani::unwind(3)]
    #[kani::stub(crate::core::system_metric::get_total_memory_size, vs::any_total_memory)]
    #[kani::stub(std::backtrace::Backtrace::capture, std::backtrace::Backtrace::disabled)]
    #[kani::stub(anyhow::Error::msg, vs::no_error_expected)]
    #[kani::stub(crate::utils::time::curr_time_millis, vs::clock_ms)]
    #[kani::stub(crate::core::circuitbreaker::rule_manager::state_change_listeners, stub_listeners)]
    fn cbr_on_request_complete_1x1024() {
        install_listener();
        let s0 = any_state();
        let now: u64 = kani::any();
        kani::assume(now >= 4096 && now < (1u64 << 50));
        let kn = now >> 10;
        vs::set_clock_ms(now);
        // slot: empty, or bucket k <= kn with counters target <= total
        let empty: bool = kani::any();
        let k: u64 = kani::any();
        kani::assume(k >= 1 && k <= kn);
        let t0: u64 = kani::any();
        let e0: u64 = kani::any();
        kani::assume(t0 <= 15 && e0 <= t0);
        let (st, e0, t0) = if empty { (0u64, 0u64, 0u64) } else { (k << 10, e0, t0) };
        let stat = Arc::new(mk_ring_of::<Counter, 1>(1024, &[st], [Counter { target: AtomicU64::new(e0), total: AtomicU64::new(t0) }]));
        std::mem::forget(stat.clone());
        let min_req: u64 = kani::any();
        let thr: f64 = kani::any();
        kani::assume(thr >= 0.0 && thr <= 1.0);
        let timeout: u32 = kani::any();
        let nr0: u64 = kani::any();
        let b = ErrorRatioBreaker {
            breaker: mk_base(mk_rule(BreakerStrategy::ErrorRatio, min_req, thr, 0), s0, timeout, nr0),
            min_request_amount: min_req,
            error_ratio_threshold: thr,
            stat: stat.clone(),
        };
        let is_err: bool = kani::any();
        // Some(error) without building an anyhow object (the breaker only tests is_some / is_none)
        let err: std::mem::ManuallyDrop<Option<Error>> =
            std::mem::ManuallyDrop::new(if is_err { unsafe { std::mem::transmute::<*mut u8, Option<Error>>(8 as *mut u8) } } else { None });
        b.on_request_complete(kani::any(), &err);

        // statistics of the current bucket: kept if the slot already held now's bucket, restarted otherwise
        let same_bucket = !empty && k == kn;
        let (be, bt) = if same_bucket { (e0, t0) } else { (0, 0) };
        let e1 = be + is_err as u64;
        let t1 = bt + 1;
        let slot = &stat.array[0];
        assert!(slot.start_stamp() == kn << 10);
        let (c, o, h, prev) = notifications();
        let s1 = b.current_state();
        let nr1 = b.breaker.next_retry_timestamp_ms.load(Ordering::SeqCst);
        match s0 {
            State::Open => {
                // Open absorbs completions
                assert!(s1 == State::Open && c + o + h == 0 && nr1 == nr0);
                assert!(slot.value().target.load(Ordering::SeqCst) == e1 && slot.value().total.load(Ordering::SeqCst) == t1);
            }
            State::HalfOpen => {
                if is_err {
                    assert!(s1 == State::Open && c == 0 && o == 1 && h == 0 && prev == 1);
                    assert!(nr1 == now + timeout as u64);
                    assert!(slot.value().target.load(Ordering::SeqCst) == e1 && slot.value().total.load(Ordering::SeqCst) == t1);
                } else {
                    // a good probe closes the breaker and clears its statistics
                    assert!(s1 == State::Closed && c == 1 && o == 0 && h == 0 && prev == 1 && nr1 == nr0);
                    assert!(slot.value().target.load(Ordering::SeqCst) == 0 && slot.value().total.load(Ordering::SeqCst) == 0);
                }
            }
            State::Closed => {
                let opens = t1 >= min_req && (e1 as f64 / t1 as f64) >= thr;
                if opens {
                    assert!(s1 == State::Open && c == 0 && o == 1 && h == 0 && prev == 0);
                    assert!(nr1 == now + timeout as u64);
                } else {
                    assert!(s1 == State::Closed && c + o + h == 0 && nr1 == nr0);
                }
                assert!(slot.value().target.load(Ordering::SeqCst) == e1 && slot.value().total.load(Ordering::SeqCst) == t1);
            }
        }
        std::mem::forget(b);
        kani::cover!(s0 == State::Closed && s1 == State::Open && same_bucket);
        kani::cover!(s0 == State::Closed && s1 == State::Closed && (e1 as f64 / t1 as f64) >= thr && t1 < min_req); // ratio met but too few requests
        kani::cover!(s0 == State::Closed && s1 == State::Open && e1 * 2 == t1 && thr == 0.5); // exactly on the threshold opens
        kani::cover!(s0 == State::HalfOpen && s1 == State::Closed);
        kani::cover!(s0 == State::HalfOpen && s1 == State::Open);
        kani::cover!(s0 == State::Closed && !same_bucket && !empty); // statistics window expired
    }
}
