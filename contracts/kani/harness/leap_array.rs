//@target core/stat/base/leap_array.rs
// Contracts of BucketWrap / LeapArray (the ring). Geometry is concrete per obligation (symbolic divisors are
// intractable for CBMC); slot contents and time are fully symbolic. The two arithmetic helpers time2idx /
// calculate_start_stamp are replaced by their contracts (proved for every geometry by Verus:
// v_time2idx, v_calculate_start_stamp, l_c02_bucket_number) expressed through the ghost bucket number.
#[cfg(kani)]
pub(crate) mod verif_la {
    use super::*;
    use crate::core::stat::verif_mb::{any_view, bucket_from_view, View, RESET_VIEW};
    use crate::core::stat::MetricBucket;
    use crate::verif_support as vs;

    // ---------------- ghost binding of the two arithmetic helpers ------------------------------
    // A harness *binds* a time `now` to the pair (idx(now), bstart(now)) it wants the helpers to return. The pair must
    // be one the Verus-proved contracts allow (idx < n; bstart <= now < bstart+len; for aligned obligations
    // bstart = k*len and idx = k mod n, lemma l_c02_bucket_number). A helper called with a time that was not bound
    // fails an assertion, so a function that queries a different time than its argument is refuted.
    // (scalar statics on purpose: static mut *arrays* made CBMC report spurious allocator failures, measured)
    pub(crate) static mut G_USED: u8 = 0;
    pub(crate) static mut G_NOW_A: u64 = 0;
    pub(crate) static mut G_IDX_A: u64 = 0;
    pub(crate) static mut G_TS_A: u64 = 0;
    pub(crate) static mut G_NOW_B: u64 = 0;
    pub(crate) static mut G_IDX_B: u64 = 0;
    pub(crate) static mut G_TS_B: u64 = 0;

    pub(crate) fn ghost_reset() {
        unsafe { G_USED = 0 }
    }
    pub(crate) fn ghost_bind(now: u64, idx: u64, ts: u64) {
        unsafe {
            if G_USED == 0 {
                G_NOW_A = now;
                G_IDX_A = idx;
                G_TS_A = ts;
                G_USED = 1;
            } else {
                G_NOW_B = now;
                G_IDX_B = idx;
                G_TS_B = ts;
                G_USED = 2;
            }
        }
    }
    /// bind an aligned time: now = k*len + off (0 <= off < len), idx = k mod n, bstart = k*len; returns now
    pub(crate) fn ghost_bind_aligned(k: u64, off: u64, n: u32, len: u32) -> u64 {
        kani::assume(off < len as u64);
        kani::assume(k < (1u64 << 40));
        let ts = k * len as u64;
        let now = ts + off;
        ghost_bind(now, k % n as u64, ts);
        now
    }
    /// (idx, ts) bound to `now`; a time that was not bound refutes the caller
    fn ghost_lookup(now: u64) -> (u64, u64) {
        unsafe {
            if G_USED >= 1 && G_NOW_A == now {
                return (G_IDX_A, G_TS_A);
            }
            if G_USED >= 2 && G_NOW_B == now {
                return (G_IDX_B, G_TS_B);
            }
            kani::assert(false, "arithmetic helper called with a time that is not the caller's time argument");
            kani::assume(false);
            (0, 0)
        }
    }
    /// contract of LeapArray::time2idx (Verus: v_time2idx)
    pub(crate) fn contract_time2idx<T: MetricTrait>(_s: &LeapArray<T>, now: u64) -> u64 {
        ghost_lookup(now).0
    }
    /// contract of LeapArray::calculate_start_stamp (Verus: v_calculate_start_stamp)
    pub(crate) fn contract_calculate_start_stamp<T: MetricTrait>(_s: &LeapArray<T>, now: u64) -> u64 {
        ghost_lookup(now).1
    }

    // ---------------- symbolic well-formed ring (aligned obligations) ------------------------------
    /// ghost description of one slot: empty (start 0, reset counters) or bucket number k (k = i mod n, n <= k <= kmax)
    #[derive(Clone, Copy)]
    pub(crate) struct SlotG {
        pub empty: bool,
        pub k: u64,
        pub v: View,
    }
    impl SlotG {
        pub(crate) fn start(&self, len: u32) -> u64 {
            if self.empty { 0 } else { self.k * len as u64 }
        }
    }

    /// Representation invariant of the ring under the property's premise (non-decreasing timestamps, all >= one
    /// array interval): slot i is empty with reset counters, or holds a bucket k = i (mod n) with n <= k <= kmax.
    pub(crate) fn any_slot(i: u32, n: u32, kmax: u64, counter_bound: u64) -> SlotG {
        let empty: bool = kani::any();
        let m: u32 = kani::any();
        let k = (m as u64) * (n as u64) + i as u64;
        kani::assume(m >= 1);
        kani::assume(k <= kmax);
        let v = if empty { RESET_VIEW } else { any_view(counter_bound) };
        SlotG { empty, k, v }
    }

    /// build the real ring with the given slot contents, writing the real fields directly
    /// (no allocation-time loops other than the N pushes, so obligations can use unwind N+1)
    pub(crate) fn mk_ring_from<const N: usize>(len: u32, st: &[u64; N], vw: &[View; N]) -> LeapArray<MetricBucket> {
        let mut array = Vec::with_capacity(N);
        let mut mutex = Vec::with_capacity(N);
        for i in 0..N {
            array.push(Arc::new(BucketWrap { start_stamp: AtomicU64::new(st[i]), value: bucket_from_view(&vw[i]) }));
            mutex.push(Mutex::new(false));
        }
        LeapArray { bucket_len_ms: len, sample_count: N as u32, interval_ms: len * N as u32, array, mutex }
    }
    /// generic variant for other bucket payloads (circuit-breaker Counter)
    pub(crate) fn mk_ring_of<T: MetricTrait, const N: usize>(len: u32, st: &[u64; N], vals: [T; N]) -> LeapArray<T> {
        let mut array = Vec::with_capacity(N);
        let mut mutex = Vec::with_capacity(N);
        let mut i = 0;
        for v in vals {
            array.push(Arc::new(BucketWrap { start_stamp: AtomicU64::new(st[i]), value: v }));
            mutex.push(Mutex::new(false));
            i += 1;
        }
        LeapArray { bucket_len_ms: len, sample_count: N as u32, interval_ms: len * N as u32, array, mutex }
    }
    pub(crate) fn mk_ring_from_slots<const N: usize>(len: u32, g: &[SlotG; N]) -> LeapArray<MetricBucket> {
        let mut st = [0u64; N];
        let mut vw = [RESET_VIEW; N];
        for i in 0..N {
            st[i] = g[i].start(len);
            vw[i] = g[i].v;
        }
        mk_ring_from::<N>(len, &st, &vw)
    }

    /// Aligned symbolic ring for a geometry with a power-of-two bucket length (len = 1 << sh): the real arithmetic
    /// helpers are then cheap for CBMC and are EXECUTED, not stubbed. `now` is any time < 2^50 that is at least two
    /// array intervals after the epoch; slot i is empty (start 0, reset counters) or holds bucket k = i (mod n),
    /// n <= k <= bucket(now), with arbitrary counters <= counter_bound. Returns (now, kn, slots).
    pub(crate) fn any_aligned_ring<const N: usize>(sh: u32, counter_bound: u64) -> (u64, u64, [SlotG; N]) {
        let n = N as u64;
        let now: u64 = kani::any();
        kani::assume(now < (1u64 << 50));
        let kn = now >> sh;
        kani::assume(kn >= 2 * n);
        let mut g = [SlotG { empty: true, k: 0, v: RESET_VIEW }; N];
        for i in 0..N {
            let empty: bool = kani::any();
            let m: u32 = kani::any();
            let k = (m as u64) * n + i as u64;
            kani::assume(m >= 1 && k <= kn);
            g[i] = SlotG { empty, k, v: if empty { RESET_VIEW } else { any_view(counter_bound) } };
        }
        (now, kn, g)
    }

    // ---------------- BucketWrap: in-place contracts (KC) ----------------------------------------
    #[kani::proof_for_contract(BucketWrap::is_deprecated)]
    fn bw_is_deprecated_contract() {
        let b = BucketWrap::<MetricBucket>::new(kani::any());
        b.is_deprecated(kani::any(), kani::any());
        kani::cover!(true);
    }

    #[kani::proof_for_contract(BucketWrap::reset_start_stamp)]
    fn bw_reset_start_stamp_contract() {
        let b = BucketWrap::<MetricBucket>::new(kani::any());
        b.reset_start_stamp(kani::any());
        kani::cover!(true);
    }

    /// is_time_in_bucket: start <= now < start + len (u64 sum cannot overflow for starts < 2^63)
    #[kani::proof]
    fn bw_is_time_in_bucket() {
        let s: u64 = kani::any();
        kani::assume(s < (1u64 << 63));
        let b = BucketWrap::<MetricBucket>::new(s);
        let now: u64 = kani::any();
        let len: u32 = kani::any();
        let r = b.is_time_in_bucket(now, len);
        assert!(r == (s <= now && (now as u128) < s as u128 + len as u128));
        assert!(b.start_stamp() == s);
        kani::cover!(r);
        kani::cover!(!r);
    }

    /// new / start_stamp / reset_value
    #[kani::proof]
    #[kani::unwind(7)]
    fn bw_new_and_reset_value() {
        let s: u64 = kani::any();
        let b = BucketWrap::<MetricBucket>::new(s);
        assert!(b.start_stamp() == s);
        assert!(b.value().verif_view().same(&RESET_VIEW));
        let v = any_view(u64::MAX);
        b.value().verif_set(&v);
        b.reset_value();
        assert!(b.value().verif_view().same(&RESET_VIEW));
        assert!(b.start_stamp() == s);
        kani::cover!(true);
    }

    // ---------------- LeapArray::new ---------------------------------------------------------------
    /// Ok <=> count != 0 && count | interval; on Ok: geometry stored, bucket_len = interval/count, count empty reset slots.
    /// The bucket count is concrete per obligation (it is a divisor and a loop bound); the interval is any u32.
    fn check_new(cnt: u32) {
        let iv: u32 = kani::any();
        let expect_ok = cnt != 0 && iv % cnt == 0;
        vs::allow_err(!expect_ok);
        kani::cover!(expect_ok || cnt == 0);
        let r = LeapArray::<MetricBucket>::new(cnt, iv);
        assert!(r.is_ok() == expect_ok);
        if let Ok(a) = r {
            assert!(a.sample_count() == cnt && a.interval_ms() == iv && a.bucket_len_ms() == iv / cnt);
            assert!(a.array.len() == cnt as usize && a.mutex.len() == cnt as usize);
            let j: usize = kani::any();
            kani::assume(j < cnt as usize);
            assert!(a.array[j].start_stamp() == 0);
            assert!(a.array[j].value().verif_view().same(&RESET_VIEW));
        }
    }
    macro_rules! new_harness {
        ($name:ident, $cnt:expr, $errstub:path) => {
            #[kani::proof]
            #[kani::unwind(7)]
            #[kani::stub(anyhow::Error::msg, $errstub)]
            #[kani::stub(std::backtrace::Backtrace::capture, std::backtrace::Backtrace::disabled)]
            #[kani::stub(crate::core::system_metric::get_total_memory_size, vs::any_total_memory)]
            fn $name() {
                check_new($cnt);
            }
        };
    }
    new_harness!(la_new_decision_0, 0, vs::error_iff_allowed);
    new_harness!(la_new_decision_1, 1, vs::no_error_expected); // count 1 divides everything
    new_harness!(la_new_decision_2, 2, vs::error_iff_allowed);
    new_harness!(la_new_decision_3, 3, vs::error_iff_allowed);

    // ---------------- LeapArray::get_bucket_of_time -----------------------------------------------
    /// The complete postcondition of get_bucket_of_time. Precondition (weakest found): the addressed slot is not
    /// newer than now's bucket (guaranteed by the property's non-decreasing-timestamp premise) and bstart(now) > 0.
    /// Slot starts, counters, `now`, the helper results (idx < n, ts) are otherwise arbitrary - no alignment needed.
    fn check_get_bucket_of_time<const N: usize>(len: u32, use_contract_stub: bool) {
        let now: u64 = kani::any();
        let idx: usize = kani::any();
        kani::assume(idx < N);
        let ts: u64 = kani::any();
        kani::assume(ts > 0);
        ghost_reset();
        ghost_bind(now, idx as u64, ts);
        let mut st = [0u64; N];
        let mut vw = [RESET_VIEW; N];
        for i in 0..N {
            st[i] = kani::any();
            // representation invariant: an empty slot (start 0) has reset counters
            vw[i] = if st[i] == 0 { RESET_VIEW } else { any_view(u64::MAX) };
        }
        kani::assume(st[idx] <= ts);
        let arr = mk_ring_from::<N>(len, &st, &vw);
        let r = if use_contract_stub { contract_get_bucket_of_time(&arr, now) } else { arr.get_bucket_of_time(now) };
        let b = match r {
            Ok(b) => b,
            Err(_) => {
                assert!(false, "get_bucket_of_time must be Ok when the slot is not newer than now");
                return;
            }
        };
        assert!(Arc::ptr_eq(&b, &arr.array[idx]));
        for i in 0..N {
            let s = arr.array[i].start_stamp();
            let v = arr.array[i].value().verif_view();
            if i == idx {
                assert!(s == ts);
                if st[i] == ts {
                    assert!(v.same(&vw[i])); // up to date: counters kept
                } else {
                    assert!(v.same(&RESET_VIEW)); // empty or expired: counters are the reset state
                }
            } else {
                assert!(s == st[i]); // frame: other slots untouched
                assert!(v.same(&vw[i]));
            }
        }
        kani::cover!(st[idx] == 0);
        kani::cover!(st[idx] == ts);
        kani::cover!(st[idx] != 0 && st[idx] < ts);
    }

    /// Same postcondition with the REAL arithmetic helpers executed (power-of-two bucket length 1 << sh), aligned
    /// well-formed ring, any time: the slot is bucket(now) mod n and its start is bucket(now) << sh.
    fn check_get_bucket_of_time_real<const N: usize>(sh: u32, use_contract_stub: bool) {
        let len: u32 = 1 << sh;
        let (now, kn, g) = any_aligned_ring::<N>(sh, u64::MAX);
        let arr = mk_ring_from_slots::<N>(len, &g);
        let r = if use_contract_stub { contract_get_bucket_of_time(&arr, now) } else { arr.get_bucket_of_time(now) };
        let b = r.unwrap();
        let idx = (kn % N as u64) as usize;
        let ts = kn << sh;
        assert!(Arc::ptr_eq(&b, &arr.array[idx]));
        for i in 0..N {
            let s = arr.array[i].start_stamp();
            let v = arr.array[i].value().verif_view();
            if i == idx {
                assert!(s == ts);
                if !g[i].empty && g[i].k == kn {
                    assert!(v.same(&g[i].v)); // the slot already held now's bucket: counters kept
                } else {
                    assert!(v.same(&RESET_VIEW)); // empty or an older bucket of the same residue class: restarted
                }
            } else {
                assert!(s == g[i].start(len)); // frame
                assert!(v.same(&g[i].v));
            }
        }
        kani::cover!(g[idx].empty);
        kani::cover!(!g[idx].empty && g[idx].k == kn);
        kani::cover!(!g[idx].empty && g[idx].k < kn);
    }
    macro_rules! gbot_real_harness {
        ($name:ident, $n:expr, $sh:expr, $stub:expr) => {
            #[kani::proof]
            #[kani::unwind(7)]
            #[kani::stub(anyhow::Error::msg, vs::no_error_expected)]
            #[kani::stub(std::backtrace::Backtrace::capture, std::backtrace::Backtrace::disabled)]
            #[kani::stub(crate::core::system_metric::get_total_memory_size, vs::any_total_memory)]
            fn $name() {
                check_get_bucket_of_time_real::<$n>($sh, $stub);
            }
        };
    }
    gbot_real_harness!(la_get_bucket_of_time_real_2x512, 2, 9, false);
    gbot_real_harness!(la_get_bucket_of_time_real_1x1024, 1, 10, false);
    gbot_real_harness!(la_get_bucket_of_time_real_3x256, 3, 8, false);
    gbot_real_harness!(la_contract_stub_get_bucket_of_time_real_2x512, 2, 9, true);
    gbot_real_harness!(la_contract_stub_get_bucket_of_time_real_3x256, 3, 8, true);

    /// executable form of the contract above, used (via kani::stub) by the obligations of callers
    pub(crate) fn contract_get_bucket_of_time<T: MetricTrait>(arr: &LeapArray<T>, now: u64) -> Result<Arc<BucketWrap<T>>> {
        let idx = arr.time2idx(now) as usize;
        let ts = arr.calculate_start_stamp(now);
        let b = &arr.array[idx];
        let s = b.start_stamp();
        if s == 0 {
            b.reset_start_stamp(ts);
        } else if s < ts {
            b.reset_start_stamp(ts);
            b.reset_value();
        } else if s > ts {
            kani::assert(false, "caller violates the precondition of get_bucket_of_time: slot newer than now");
            kani::assume(false);
        }
        Ok(Arc::clone(b))
    }

    macro_rules! gbot_harness {
        ($name:ident, $n:expr, $len:expr, $stub:expr, $unw:expr) => {
            #[kani::proof]
            #[kani::unwind($unw)]
            #[kani::stub(anyhow::Error::msg, vs::no_error_expected)]
            #[kani::stub(std::backtrace::Backtrace::capture, std::backtrace::Backtrace::disabled)]
            #[kani::stub(crate::core::system_metric::get_total_memory_size, vs::any_total_memory)]
            #[kani::stub(LeapArray::time2idx, contract_time2idx)]
            #[kani::stub(LeapArray::calculate_start_stamp, contract_calculate_start_stamp)]
            fn $name() {
                check_get_bucket_of_time::<$n>($len, $stub);
            }
        };
    }
    gbot_harness!(la_get_bucket_of_time_1x1000, 1, 1000, false, 7);
    gbot_harness!(la_get_bucket_of_time_2x500, 2, 500, false, 7);
    gbot_harness!(la_get_bucket_of_time_3x200, 3, 200, false, 7);
    gbot_harness!(la_contract_stub_get_bucket_of_time_2x500, 2, 500, true, 7);
    gbot_harness!(la_contract_stub_get_bucket_of_time_3x200, 3, 200, true, 7);

    // ---------------- readers: get_valid_values_conditional ----------------------------------------
    /// result = exactly the slots, in slot order, that are not deprecated (w.r.t. the array interval) and satisfy cond
    fn check_get_valid_values_conditional<const N: usize>(len: u32) {
        let n = N as u32;
        let now: u64 = kani::any();
        let lo: u64 = kani::any();
        let hi: u64 = kani::any();
        let starts: [u64; N] = kani::any();
        let arr = mk_ring_from::<N>(len, &starts, &[RESET_VIEW; N]);
        let res = arr.get_valid_values_conditional(now, &move |s: u64| lo <= s && s <= hi);
        let iv = (len * n) as u64;
        let mut j = 0usize;
        for i in 0..N {
            let dep = now > starts[i] && now - starts[i] > iv;
            let want = !dep && lo <= starts[i] && starts[i] <= hi;
            if want {
                assert!(j < res.len());
                assert!(Arc::ptr_eq(&res[j], &arr.array[i]));
                j += 1;
            }
        }
        assert!(j == res.len());
        kani::cover!(res.len() == N);
        kani::cover!(res.len() == 0);
        kani::cover!(res.len() == 1);
    }

    #[kani::proof]
    #[kani::unwind(3)]
    #[kani::stub(crate::core::system_metric::get_total_memory_size, crate::verif_support::any_total_memory)]
    #[kani::stub(std::backtrace::Backtrace::capture, std::backtrace::Backtrace::disabled)]
    fn la_get_valid_values_conditional_2x500() {
        check_get_valid_values_conditional::<2>(500);
    }
    #[kani::proof]
    #[kani::unwind(4)]
    #[kani::stub(crate::core::system_metric::get_total_memory_size, crate::verif_support::any_total_memory)]
    #[kani::stub(std::backtrace::Backtrace::capture, std::backtrace::Backtrace::disabled)]
    fn la_get_valid_values_conditional_3x200() {
        check_get_valid_values_conditional::<3>(200);
    }
}
