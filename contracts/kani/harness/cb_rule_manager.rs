//@target core/circuitbreaker/rule_manager.rs
// C11 (reduced): the reuse decision for a re-loaded circuit-breaker rule against the resource's old breakers
#[cfg(kani)]
pub(crate) mod verif_crm {
    use super::*;
    use crate::core::circuitbreaker::breaker::verif_cb::{mk_base, BareBreaker};
    use crate::core::circuitbreaker::rule::verif_cr::any_rule;
    use crate::core::stat::verif_la::mk_ring_of;
    use crate::verif_support as vs;

    fn check<const N: usize>() {
        let mut olds: Vec<Arc<dyn CircuitBreakerTrait>> = Vec::with_capacity(N);
        let mut rules: Vec<Arc<Rule>> = Vec::with_capacity(N);
        for _ in 0..N {
            let r = Arc::new(any_rule("r"));
            std::mem::forget(r.clone());
            let stat = Arc::new(mk_ring_of::<Counter, 1>(1024, &[0u64], [Counter::default()]));
            std::mem::forget(stat.clone());
            let b: Arc<dyn CircuitBreakerTrait> = Arc::new(BareBreaker { base: mk_base(r.clone(), State::Closed, 0, 0), stat });
            std::mem::forget(b.clone());
            olds.push(b);
            rules.push(r);
        }
        let new_rule = Arc::new(any_rule("r"));
        std::mem::forget(new_rule.clone());
        let (eq_idx, reuse_idx) = calculate_reuse_index_for(&new_rule, &olds);
        let mut want_eq = usize::MAX;
        let mut want_reuse = usize::MAX;
        for i in 0..N {
            if want_eq == usize::MAX {
                if *rules[i] == *new_rule {
                    want_eq = i;
                } else if want_reuse == usize::MAX && rules[i].is_stat_reusable(&new_rule) {
                    want_reuse = i;
                }
            }
        }
        assert!(eq_idx == want_eq && reuse_idx == want_reuse);
        assert!(eq_idx == usize::MAX || eq_idx < N);
        assert!(reuse_idx == usize::MAX || reuse_idx < N);
        std::mem::forget(olds);
        std::mem::forget(rules);
        kani::cover!(eq_idx != usize::MAX && reuse_idx != usize::MAX);
        kani::cover!(eq_idx == usize::MAX && reuse_idx == N - 1);
    }
    #[kani::proof]
    #[kani::unwind(4)]
    #[kani::stub(crate::core::system_metric::get_total_memory_size, vs::any_total_memory)]
    #[kani::stub(std::backtrace::Backtrace::capture, std::backtrace::Backtrace::disabled)]
    #[kani::stub(anyhow::Error::msg, vs::no_error_expected)]
    fn crm_reuse_index_2() {
        check::<2>();
    }
}
