//@target core/flow/traffic_shaping/throttling.rs
// C07 (flow part): the throttling checker paces admissions, bounds queueing, and reports the wait in NANOSECONDS.
#[cfg(kani)]
pub(crate) mod verif_ft {
    use super::*;
    use crate::core::flow::traffic_shaping::default::verif_fd::mk_rule;
    use crate::flow::{CalculateStrategy, ControlStrategy, StandaloneStat};
    use crate::verif_support as vs;

    /// ThrottlingChecker::new: no panic for any u32 interval / queueing time; ms are converted to ns; 0 interval means 1 s
    #[kani::proof]
    #[kani::unwind(2)]
    #[kani::stub(crate::core::system_metric::get_total_memory_size, vs::any_total_memory)]
    #[kani::stub(std::backtrace::Backtrace::capture, std::backtrace::Backtrace::disabled)]
    #[kani::stub(anyhow::Error::msg, vs::no_error_expected)]
    fn ft_new() {
        let mut rule = mk_rule(kani::any(), CalculateStrategy::Direct, ControlStrategy::Throttling);
        let iv: u32 = kani::any();
        let mq: u32 = kani::any();
        rule.stat_interval_ms = iv;
        rule.max_queueing_time_ms = mq;
        let c = ThrottlingChecker::new(Weak::new(), Arc::new(rule));
        let want_iv: i64 = if iv == 0 { 1_000_000_000 } else { iv as i64 * 1_000_000 };
        assert!(c.stat_interval_ns == want_iv);
        assert!(c.max_queueing_time_ns == mq as i64 * 1_000_000);
        assert!(c.last_passed_time.load(Ordering::SeqCst) == 0);
        kani::cover!(iv == 0);
        kani::cover!(iv == 600_000 && mq == 2000);
    }

    /// the complete decision relation of do_check for one listed statistic interval
    /// `fixed_threshold`: Some(t) pins the rate (the f64 division by a symbolic divisor is intractable for CBMC, measured:
    /// > 30 min); None leaves it symbolic but restricts the inputs to the paths that do not reach the division
    /// (batch 0, threshold <= 0, batch > threshold)
    fn check_do_check(interval_ns: i64, fixed_threshold: Option<f64>) -> Obs {
        let max_q: i64 = kani::any();
        kani::assume(max_q >= 0 && max_q <= 2_000_000_000);
        let now: i64 = kani::any();
        kani::assume(now >= 0 && now < (1i64 << 62));
        let last: i64 = kani::any();
        kani::assume(last >= 0 && last <= now);
        let batch: u32 = kani::any();
        kani::assume(batch <= 1_000_000);
        let threshold: f64 = match fixed_threshold {
            Some(t) => t,
            None => {
                let t: f64 = kani::any();
                kani::assume(t <= 1.0e6 && t >= -1.0); // includes 0 and negative (always rejected); NaN excluded
                kani::assume(batch == 0 || t <= 0.0 || (batch as f64) > t);
                t
            }
        };
        vs::set_clock_ns(now as i128);
        let node = Arc::new(vs::RecNode::new());
        let rule = Arc::new(mk_rule(kani::any(), CalculateStrategy::Direct, ControlStrategy::Throttling));
        let tsc = Arc::new(Controller::new(rule.clone(), Arc::new(StandaloneStat::new(false, node.clone(), None))));
        let with_owner: bool = kani::any();
        let chk = ThrottlingChecker {
            owner: if with_owner { Arc::downgrade(&tsc) } else { Weak::new() },
            max_queueing_time_ns: max_q,
            stat_interval_ns: interval_ns,
            last_passed_time: AtomicI64::new(last),
        };
        let r = chk.do_check(None, batch, threshold);
        let last2 = chk.last_passed_time.load(Ordering::SeqCst);
        if batch == 0 {
            assert!(r.is_pass() && last2 == last);
        } else if threshold <= 0.0 || (batch as f64) > threshold {
            assert!(r.is_blocked() && last2 == last);
            assert!(r.block_err().unwrap().block_type() == BlockType::Flow);
        } else {
            // scheduling cost of this request: batch * interval / rate  (same float expression as the statement)
            let cost = ((batch as f64).ceil() / threshold * (interval_ns as f64)) as i64;
            if last + cost <= now {
                assert!(r.is_pass() && last2 == now); // slot is free: admitted at once
            } else {
                let wait = last + cost - now;
                if wait > max_q {
                    assert!(r.is_blocked() && last2 == last); // would queue for too long: rejected, schedule untouched
                    assert!(r.block_err().unwrap().block_type() == BlockType::Flow);
                } else {
                    // queued: the wait handed to the slot is the time until the scheduled slot, in nanoseconds
                    assert!(r.is_wait() && r.nanos_to_wait() == wait as u64);
                    assert!(last2 == last + cost);
                }
            }
            if !r.is_blocked() {
                assert!(last2 >= last + cost); // admitted requests are spaced by at least batch*interval/rate
                assert!(last2 - now <= max_q); // and never scheduled further ahead than the maximum queueing time
            }
        }
        assert!(node.writes() == 0);
        Obs { wait: r.is_wait() && r.nanos_to_wait() > 0, pass: r.is_pass(), blocked: r.is_blocked(), batch, threshold, last, now }
    }
    struct Obs {
        wait: bool,
        pass: bool,
        blocked: bool,
        batch: u32,
        threshold: f64,
        last: i64,
        now: i64,
    }
    fn check_fixed(interval_ns: i64, t: f64) {
        let o = check_do_check(interval_ns, Some(t));
        kani::cover!(o.wait);
        kani::cover!(o.pass && o.batch > 0);
        kani::cover!(o.blocked && (o.batch as f64) <= o.threshold);
        kani::cover!(o.batch > 0 && (o.batch as f64) <= o.threshold
            && o.last + ((o.batch as f64).ceil() / o.threshold * (interval_ns as f64)) as i64 == o.now); // exactly on the slot
    }
    fn check_reject_paths(interval_ns: i64) {
        let o = check_do_check(interval_ns, None);
        kani::cover!(o.blocked && o.threshold > 0.0);
        kani::cover!(o.blocked && o.threshold <= 0.0);
        kani::cover!(o.pass);
    }

    macro_rules! h {
        ($name:ident, $call:expr) => {
            #[kani::proof]
            #[kani::unwind(2)]
            #[kani::stub(crate::core::system_metric::get_total_memory_size, vs::any_total_memory)]
            #[kani::stub(std::backtrace::Backtrace::capture, std::backtrace::Backtrace::disabled)]
            #[kani::stub(anyhow::Error::msg, vs::no_error_expected)]
            #[kani::stub(crate::utils::time::curr_time_nanos, vs::clock_ns)]
            fn $name() {
                $call;
            }
        };
    }
    h!(ft_do_check_reject_paths, check_reject_paths(1_000_000_000));
    h!(ft_do_check_1s_rate10, check_fixed(1_000_000_000, 10.0));
    h!(ft_do_check_1s_rate2_5, check_fixed(1_000_000_000, 2.5));
    h!(ft_do_check_1s_rate1000, check_fixed(1_000_000_000, 1000.0));
    h!(ft_do_check_100ms_rate1, check_fixed(100_000_000, 1.0));
    h!(ft_do_check_10s_rate300, check_fixed(10_000_000_000, 300.0));
}
