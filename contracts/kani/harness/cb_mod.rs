//@target core/circuitbreaker/breaker/mod.rs
// C03: the state machine primitives of BreakerBase and the default try_pass, with a recording listener.
// `state_change_listeners()` (a lazy_static Mutex<Vec<..>>) is replaced by a harness-owned static of the same type.
#[cfg(kani)]
pub(crate) mod verif_cb {
    use super::*;
    use crate::verif_support as vs;
    use std::sync::atomic::Ordering::SeqCst;

    pub(crate) static LISTENERS: Mutex<Vec<Arc<dyn StateChangeListener>>> = Mutex::new(Vec::new());
    pub(crate) fn stub_listeners() -> &'static Mutex<Vec<Arc<dyn StateChangeListener>>> {
        &LISTENERS
    }
    // recording listener: number of calls per kind, the `prev` argument of the last call (0 Closed, 1 HalfOpen, 2 Open)
    pub(crate) static mut TO_CLOSED: u32 = 0;
    pub(crate) static mut TO_OPEN: u32 = 0;
    pub(crate) static mut TO_HALF: u32 = 0;
    pub(crate) static mut LAST_PREV: u8 = 9;
    pub(crate) fn st_code(s: State) -> u8 {
        match s {
            State::Closed => 0,
            State::HalfOpen => 1,
            State::Open => 2,
        }
    }
    pub(crate) fn any_state() -> State {
        let k: u8 = kani::any();
        kani::assume(k < 3);
        match k {
            0 => State::Closed,
            1 => State::HalfOpen,
            _ => State::Open,
        }
    }
    pub(crate) struct RecListener {}
    impl StateChangeListener for RecListener {
        fn on_transform_to_closed(&self, prev: State, _rule: Arc<Rule>) {
            unsafe {
                TO_CLOSED += 1;
                LAST_PREV = st_code(prev);
            }
        }
        fn on_transform_to_open(&self, prev: State, _rule: Arc<Rule>, _s: Option<Arc<Snapshot>>) {
            unsafe {
                TO_OPEN += 1;
                LAST_PREV = st_code(prev);
            }
        }
        fn on_transform_to_half_open(&self, prev: State, _rule: Arc<Rule>) {
            unsafe {
                TO_HALF += 1;
                LAST_PREV = st_code(prev);
            }
        }
        fn on_circuit_breaker_drop(&self, _prev: State, _rule: Arc<Rule>) {}
    }
    pub(crate) fn install_listener() {
        unsafe {
            TO_CLOSED = 0;
            TO_OPEN = 0;
            TO_HALF = 0;
            LAST_PREV = 9;
        }
        let l: Arc<dyn StateChangeListener> = Arc::new(RecListener {});
        LISTENERS.lock().unwrap().push(l);
    }
    pub(crate) fn notifications() -> (u32, u32, u32, u8) {
        unsafe { (TO_CLOSED, TO_OPEN, TO_HALF, LAST_PREV) }
    }
    pub(crate) fn mk_rule(strategy: BreakerStrategy, min_request_amount: u64, threshold: f64, max_allowed_rt_ms: u64) -> Arc<Rule> {
        let r = Arc::new(Rule {
            id: String::new(),
            resource: String::new(),
            strategy,
            retry_timeout_ms: 0,
            min_request_amount,
            stat_interval_ms: 1024,
            stat_sliding_window_bucket_count: 1,
            max_allowed_rt_ms,
            threshold,
        });
        std::mem::forget(r.clone());
        r
    }
    pub(crate) fn mk_base(rule: Arc<Rule>, state: State, retry_timeout_ms: u32, next_retry: u64) -> BreakerBase {
        BreakerBase {
            rule,
            retry_timeout_ms,
            next_retry_timestamp_ms: AtomicU64::new(next_retry),
            state: Arc::new(Mutex::new(state)),
        }
    }

    macro_rules! cb_harness {
        ($name:ident, $unw:expr, $body:expr) => {
            #[kani::proof]
            #[kani::unwind($unw)]
            #[kani::stub(crate::core::system_metric::get_total_memory_size, vs::any_total_memory)]
            #[kani::stub(std::backtrace::Backtrace::capture, std::backtrace::Backtrace::disabled)]
            #[kani::stub(anyhow::Error::msg, vs::no_error_expected)]
            #[kani::stub(crate::utils::time::format_time_nanos_curr, vs::empty_string)]
            #[kani::stub(crate::utils::time::curr_time_millis, vs::clock_ms)]
            #[kani::stub(crate::core::circuitbreaker::rule_manager::state_change_listeners, stub_listeners)]
            fn $name() {
                $body
            }
        };
    }

    // the three compare-and-set transitions that need no entry: they happen iff the pre-state is the source state,
    // return whether they happened, notify the listener exactly once with the right previous state, and entering Open
    // sets next_retry = now + retry_timeout
    cb_harness!(cb_from_closed_to_open, 3, {
        install_listener();
        let s0 = any_state();
        let now: u64 = kani::any();
        kani::assume(now < (1u64 << 50));
        let timeout: u32 = kani::any();
        let nr0: u64 = kani::any();
        vs::set_clock_ms(now);
        let b = mk_base(mk_rule(BreakerStrategy::ErrorCount, 0, 0.0, 0), s0, timeout, nr0);
        let r = b.from_closed_to_open(Arc::new(1u64));
        let (c, o, h, prev) = notifications();
        if s0 == State::Closed {
            assert!(r && b.current_state() == State::Open);
            assert!(b.next_retry_timestamp_ms.load(SeqCst) == now + timeout as u64);
            assert!(c == 0 && o == 1 && h == 0 && prev == 0);
        } else {
            assert!(!r && b.current_state() == s0);
            assert!(b.next_retry_timestamp_ms.load(SeqCst) == nr0);
            assert!(c == 0 && o == 0 && h == 0);
        }
        std::mem::forget(b);
        kani::cover!(r);
        kani::cover!(!r);
    });
    cb_harness!(cb_from_half_open_to_open, 3, {
        install_listener();
        let s0 = any_state();
        let now: u64 = kani::any();
        kani::assume(now < (1u64 << 50));
        let timeout: u32 = kani::any();
        let nr0: u64 = kani::any();
        vs::set_clock_ms(now);
        let b = mk_base(mk_rule(BreakerStrategy::ErrorCount, 0, 0.0, 0), s0, timeout, nr0);
        let r = b.from_half_open_to_open(Arc::new(1u64));
        let (c, o, h, prev) = notifications();
        if s0 == State::HalfOpen {
            assert!(r && b.current_state() == State::Open);
            assert!(b.next_retry_timestamp_ms.load(SeqCst) == now + timeout as u64);
            assert!(c == 0 && o == 1 && h == 0 && prev == 1);
        } else {
            assert!(!r && b.current_state() == s0);
            assert!(b.next_retry_timestamp_ms.load(SeqCst) == nr0);
            assert!(c == 0 && o == 0 && h == 0);
        }
        std::mem::forget(b);
        kani::cover!(r);
        kani::cover!(!r);
    });
    cb_harness!(cb_from_half_open_to_closed, 3, {
        install_listener();
        let s0 = any_state();
        let nr0: u64 = kani::any();
        let b = mk_base(mk_rule(BreakerStrategy::ErrorCount, 0, 0.0, 0), s0, kani::any(), nr0);
        let r = b.from_half_open_to_closed();
        let (c, o, h, prev) = notifications();
        if s0 == State::HalfOpen {
            assert!(r && b.current_state() == State::Closed);
            assert!(c == 1 && o == 0 && h == 0 && prev == 1);
        } else {
            assert!(!r && b.current_state() == s0);
            assert!(c == 0 && o == 0 && h == 0);
        }
        assert!(b.next_retry_timestamp_ms.load(SeqCst) == nr0);
        std::mem::forget(b);
        kani::cover!(r);
        kani::cover!(!r);
    });

    // Open -> HalfOpen without an entry in the context (the probe hook cannot be registered; the transition itself
    // still happens once and is announced once)
    cb_harness!(cb_from_open_to_half_open_no_entry, 3, {
        install_listener();
        let s0 = any_state();
        let b = mk_base(mk_rule(BreakerStrategy::ErrorCount, 0, 0.0, 0), s0, kani::any(), kani::any());
        let ctx = EntryContext::new();
        let r = b.from_open_to_half_open(&ctx);
        let (c, o, h, prev) = notifications();
        if s0 == State::Open {
            assert!(r && b.current_state() == State::HalfOpen);
            assert!(c == 0 && o == 0 && h == 1 && prev == 2);
        } else {
            assert!(!r && b.current_state() == s0);
            assert!(c == 0 && o == 0 && h == 0);
        }
        std::mem::forget(b);
        std::mem::forget(ctx);
        kani::cover!(r);
        kani::cover!(!r);
    });

    /// minimal concrete breaker over BreakerBase to exercise the trait's default try_pass
    pub(crate) struct BareBreaker {
        pub base: BreakerBase,
        pub stat: Arc<CounterLeapArray>,
    }
    impl CircuitBreakerTrait for BareBreaker {
        fn breaker(&self) -> &BreakerBase {
            &self.base
        }
        fn stat(&self) -> &Arc<CounterLeapArray> {
            &self.stat
        }
        fn on_request_complete(&self, _rt: u64, _e: &Option<Error>) {}
    }

    // try_pass: Closed => admitted; HalfOpen => rejected; Open => admitted iff now >= next_retry, and then the state is
    // HalfOpen (announced once, prev = Open) so a second request in the same phase is rejected: exactly one probe
    cb_harness!(cb_try_pass, 3, {
        install_listener();
        let s0 = any_state();
        let now: u64 = kani::any();
        let nr0: u64 = kani::any();
        vs::set_clock_ms(now);
        let stat = Arc::new(crate::core::stat::verif_la::mk_ring_of::<Counter, 1>(1024, &[0u64], [Counter::default()]));
        std::mem::forget(stat.clone());
        let b = BareBreaker { base: mk_base(mk_rule(BreakerStrategy::ErrorCount, 0, 0.0, 0), s0, kani::any(), nr0), stat };
        let ctx = EntryContext::new();
        let r = b.try_pass(&ctx);
        let (c, o, h, prev) = notifications();
        match s0 {
            State::Closed => {
                assert!(r && b.current_state() == State::Closed && c + o + h == 0);
            }
            State::HalfOpen => {
                assert!(!r && b.current_state() == State::HalfOpen && c + o + h == 0);
            }
            State::Open => {
                if now >= nr0 {
                    assert!(r && b.current_state() == State::HalfOpen);
                    assert!(c == 0 && o == 0 && h == 1 && prev == 2);
                    let r2 = b.try_pass(&ctx); // no second probe
                    assert!(!r2 && b.current_state() == State::HalfOpen);
                    assert!(notifications().2 == 1);
                } else {
                    assert!(!r && b.current_state() == State::Open && c + o + h == 0);
                }
            }
        }
        assert!(b.base.next_retry_timestamp_ms.load(SeqCst) == nr0);
        std::mem::forget(b);
        std::mem::forget(ctx);
        kani::cover!(s0 == State::Open && now == nr0 && r);
        kani::cover!(s0 == State::Open && !r);
    });

    // The probe hook: Open -> HalfOpen through an entry registers an exit handler on that entry. When the entry is exited
    // while its context is blocked (the probe was rejected by another rule) the breaker goes back to Open and announces
    // it once with prev = HalfOpen; when the context passed, the hook changes nothing.
    cb_harness!(cb_probe_hook_rolls_back_blocked_probe, 4, {
        use crate::base::{BlockType, SentinelEntry, SlotChain, TokenResult};
        use std::sync::RwLock;
        install_listener();
        let b = mk_base(mk_rule(BreakerStrategy::ErrorCount, 0, 0.0, 0), State::Open, kani::any(), kani::any());
        let ctx = Arc::new(RwLock::new(crate::core::base::context::verif_ctx::mk_ctx("r", false, 1, 0, None)));
        std::mem::forget(ctx.clone());
        let sc = Arc::new(SlotChain::new());
        std::mem::forget(sc.clone());
        let entry = Arc::new(RwLock::new(SentinelEntry::new(ctx.clone(), sc)));
        std::mem::forget(entry.clone());
        ctx.write().unwrap().set_entry(Arc::downgrade(&entry));
        {
            let g = ctx.read().unwrap();
            let r = b.from_open_to_half_open(&g);
            assert!(r && b.current_state() == State::HalfOpen);
        }
        assert!(notifications() == (0, 0, 1, 2));
        let probe_blocked: bool = kani::any();
        if probe_blocked {
            ctx.write().unwrap().set_result(TokenResult::new_blocked(BlockType::Other(3)));
        }
        // the entry's exit handlers, invoked as SentinelEntry::exit invokes them (se_exit_runs_handlers_then_chain)
        {
            let g = entry.read().unwrap();
            let n = crate::core::base::entry::verif_entry::run_exit_handlers(&g);
            assert!(n == 1); // exactly one hook was registered by the transition
            std::mem::forget(g);
        }
        let (c, o, h, prev) = notifications();
        if probe_blocked {
            assert!(b.current_state() == State::Open);
            assert!(c == 0 && o == 1 && h == 1 && prev == 1);
        } else {
            assert!(b.current_state() == State::HalfOpen);
            assert!(c == 0 && o == 0 && h == 1);
        }
        std::mem::forget(b);
        kani::cover!(probe_blocked);
        kani::cover!(!probe_blocked);
    });
}
