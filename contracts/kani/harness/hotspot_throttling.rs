//@target core/hotspot/traffic_shaping/throttling.rs
// C07 (hotspot part): per-value pacing; the wait handed to the slot must be in NANOSECONDS (TokenResult::Wait is
// defined in ns and hotspot::Slot::check passes it to sleep_for_ns)
#[cfg(kani)]
pub(crate) mod verif_ht {
    use super::*;
    use crate::core::hotspot::cache::verif_hc::MapCounter;
    use crate::core::hotspot::traffic_shaping::reject::verif_hr::{fmt_stub, mk_rule, stub_random_state};
    use crate::verif_support as vs;

    fn check_do_check(q: u64, d: u64) {
        let max_q: u64 = kani::any();
        kani::assume(max_q <= 2000);
        let batch: u32 = kani::any();
        kani::assume(batch <= 1_000_000);
        let now: u64 = kani::any();
        kani::assume(now < (1u64 << 40));
        vs::set_clock_ms(now);
        let rule = mk_rule(MetricType::QPS, ControlStrategy::Throttling, q, 0, d, max_q);
        let metric = Arc::new(ParamsMetric::<MapCounter> {
            rule_time_counter: MapCounter::with_capacity(2),
            rule_token_counter: MapCounter::with_capacity(0),
            concurrency_counter: MapCounter::with_capacity(0),
        });
        std::mem::forget(metric.clone());
        let o_last: u64 = kani::any();
        metric.rule_time_counter.preload("o", o_last);
        let present: bool = kani::any();
        let last: u64 = kani::any();
        kani::assume(last <= now + 4000 && last < (1u64 << 40)); // the schedule may already lie ahead of now (queued requests)
        if present {
            metric.rule_time_counter.preload("a", last);
        }
        let ctl = Arc::new(Controller::<MapCounter>::new_with_metric(rule.clone(), metric.clone()));
        std::mem::forget(ctl.clone());
        let chk = ThrottlingChecker::<MapCounter> { owner: Arc::downgrade(&ctl) };
        let r = chk.do_check(String::from("a"), batch);
        let cost = ((batch as u64 * d * 1000) as f64 / q as f64).round() as u64; // batch*interval/rate, in ms
        if !present {
            assert!(r.is_pass() && metric.rule_time_counter.peek("a") == Some(now));
        } else {
            let expected = last + cost;
            if expected <= now {
                assert!(r.is_pass() && metric.rule_time_counter.peek("a") == Some(now));
            } else if expected - now < max_q {
                // queued: held until the scheduled time; the schedule advances to it
                assert!(r.is_wait());
                assert!(r.nanos_to_wait() == (expected - now) * 1_000_000, "wait must be the time until the scheduled slot, in ns");
                assert!(metric.rule_time_counter.peek("a") == Some(expected));
            } else if expected - now > max_q {
                assert!(r.is_blocked() && metric.rule_time_counter.peek("a") == Some(last));
                assert!(r.block_err().unwrap().block_type() == BlockType::HotSpotParamFlow);
            } else {
                // wait == max: the statement allows either (queued exactly at the limit, or rejected); the schedule must be consistent
                assert!((r.is_blocked() && metric.rule_time_counter.peek("a") == Some(last))
                    || (r.is_wait() && metric.rule_time_counter.peek("a") == Some(expected)));
            }
        }
        assert!(metric.rule_time_counter.peek("o") == Some(o_last));
        std::mem::forget(r);
        kani::cover!(present && r_kind(present, last, cost, now, max_q) == 1);
        kani::cover!(present && r_kind(present, last, cost, now, max_q) == 2);
        kani::cover!(present && r_kind(present, last, cost, now, max_q) == 0 && last + cost == now);
    }
    fn r_kind(present: bool, last: u64, cost: u64, now: u64, max_q: u64) -> u8 {
        if !present || last + cost <= now { 0 } else if last + cost - now < max_q { 1 } else { 2 }
    }
    macro_rules! h {
        ($name:ident, $q:expr, $d:expr) => {
            #[kani::proof]
            #[kani::unwind(3)]
            #[kani::stub(crate::core::system_metric::get_total_memory_size, vs::any_total_memory)]
            #[kani::stub(std::backtrace::Backtrace::capture, std::backtrace::Backtrace::disabled)]
            #[kani::stub(anyhow::Error::msg, vs::no_error_expected)]
            #[kani::stub(crate::utils::time::curr_time_millis, vs::clock_ms)]
            #[kani::stub(std::collections::hash_map::RandomState::new, stub_random_state)]
            #[kani::stub(alloc::fmt::format, fmt_stub)]
            fn $name() {
                check_do_check($q, $d);
            }
        };
    }
    h!(ht_do_check_rate10_d1, 10, 1);
    h!(ht_do_check_rate100_d2, 100, 2);

    /// rate 0: always rejected, schedule untouched
    #[kani::proof]
    #[kani::unwind(3)]
    #[kani::stub(crate::core::system_metric::get_total_memory_size, vs::any_total_memory)]
    #[kani::stub(std::backtrace::Backtrace::capture, std::backtrace::Backtrace::disabled)]
    #[kani::stub(anyhow::Error::msg, vs::no_error_expected)]
    #[kani::stub(crate::utils::time::curr_time_millis, vs::clock_ms)]
    #[kani::stub(std::collections::hash_map::RandomState::new, stub_random_state)]
    #[kani::stub(alloc::fmt::format, fmt_stub)]
    fn ht_do_check_rate0_rejected() {
        vs::set_clock_ms(kani::any());
        let rule = mk_rule(MetricType::QPS, ControlStrategy::Throttling, 0, 0, 1, kani::any());
        let metric = Arc::new(ParamsMetric::<MapCounter> {
            rule_time_counter: MapCounter::with_capacity(2),
            rule_token_counter: MapCounter::with_capacity(0),
            concurrency_counter: MapCounter::with_capacity(0),
        });
        std::mem::forget(metric.clone());
        let ctl = Arc::new(Controller::<MapCounter>::new_with_metric(rule, metric.clone()));
        std::mem::forget(ctl.clone());
        let chk = ThrottlingChecker::<MapCounter> { owner: Arc::downgrade(&ctl) };
        let r = chk.do_check(String::from("a"), kani::any());
        assert!(r.is_blocked() && metric.rule_time_counter.peek("a").is_none());
        std::mem::forget(r);
        kani::cover!(true);
    }
}
