//@target core/flow/traffic_shaping/warmup.rs
// C08 (reduced, bounded): per-call clauses of the warm-up calculator for a grid of concrete rules
// (threshold q, cold factor c, warm-up period p); token state, clock and previous QPS are symbolic.
// The trajectory clauses of the property (monotone ramp, reaches q within 2p+2 s) are NOT decided.
#[cfg(kani)]
pub(crate) mod verif_fw {
    use super::*;
    use crate::core::flow::traffic_shaping::default::verif_fd::mk_rule;
    use crate::flow::{CalculateStrategy, ControlStrategy, StandaloneStat};
    use crate::verif_support as vs;
    use std::sync::atomic::Ordering::SeqCst;

    struct Fx {
        calc: WarmUpCalculator,
        node: Arc<vs::RecNode>,
        q: f64,
        c: u32,
        p: u32,
    }
    fn fixture(q: f64, c_cfg: u32, p: u32) -> Fx {
        let mut rule = mk_rule(q, CalculateStrategy::WarmUp, ControlStrategy::Reject);
        rule.warm_up_cold_factor = c_cfg;
        rule.warm_up_period_sec = p;
        let rule = Arc::new(rule);
        std::mem::forget(rule.clone());
        let node = Arc::new(vs::RecNode::new());
        std::mem::forget(node.clone());
        let tsc = Arc::new(Controller::new(rule.clone(), Arc::new(StandaloneStat::new(true, node.clone(), None))));
        std::mem::forget(tsc.clone());
        let calc = WarmUpCalculator::new(Arc::downgrade(&tsc), rule);
        let c = if c_cfg <= 1 { 3 } else { c_cfg };
        Fx { calc, node, q, c, p }
    }

    /// new(): no panic; cold factor 0/1 means the default 3; warning line, maximum and slope as documented
    fn check_new(q: f64, c_cfg: u32, p: u32) {
        let f = fixture(q, c_cfg, p);
        let w = ((p as f64) * q / ((f.c - 1) as f64)) as u64;
        let m = w + 2 * (((p as f64) * q / ((f.c + 1) as f64)) as u64);
        assert!(f.calc.cold_factor == f.c);
        assert!(f.calc.warning_token == w && f.calc.max_token == m);
        assert!(w > 0 && m > w);
        assert!(f.calc.slope > 0.0);
        assert!(f.calc.stored_tokens.load(SeqCst) == 0 && f.calc.last_filled_time.load(SeqCst) == 0);
        kani::cover!(true);
    }

    /// calculate_allowed_threshold with the refill switched off (clock not past the last refill second):
    /// the allowance is a function of the stored tokens only; it never lets more than q whole tokens through, is never
    /// below q/c (cold) up to rounding, equals q below the warning line, and is monotone: more stored tokens => smaller allowance
    fn check_allowance(q: f64, c_cfg: u32, p: u32) {
        let f = fixture(q, c_cfg, p);
        let s1: u64 = kani::any();
        let s2: u64 = kani::any();
        kani::assume(s1 <= s2 && s2 <= f.calc.max_token);
        let last: u64 = kani::any();
        kani::assume(last < (1u64 << 50) && last % 1000 == 0);
        let now: u64 = kani::any();
        kani::assume(now < last + 1000); // same second (or earlier): sync_token must not touch the bucket
        vs::set_clock_ms(now);
        f.node.qps_prev_bits[0].store(kani::any::<f64>().to_bits(), SeqCst);
        f.calc.last_filled_time.store(last, SeqCst);
        f.calc.stored_tokens.store(s1, SeqCst);
        let a1 = f.calc.calculate_allowed_threshold(kani::any(), kani::any());
        assert!(f.calc.stored_tokens.load(SeqCst) == s1 && f.calc.last_filled_time.load(SeqCst) == last);
        f.calc.stored_tokens.store(s2, SeqCst);
        let a2 = f.calc.calculate_allowed_threshold(kani::any(), kani::any());
        assert!(a1.floor() <= q && a2.floor() <= q); // never more than q whole tokens per interval
        assert!(a2 >= q / (f.c as f64) * (1.0 - 1.0e-9)); // never below the cold allowance q/c
        // monotone in the stored tokens, in whole tokens: exactly AT the warning line the code returns next_after(q),
        // one ulp above the q it returns below the line, so the raw floats are not monotone (a first version of this
        // obligation demanded that and was a false alarm: the property speaks about admitted requests)
        assert!(a1.floor() >= a2.floor());
        if s1 < f.calc.warning_token {
            assert!(a1 == q); // warm: the full threshold
        }
        if s2 == f.calc.max_token {
            assert!(a2 <= q / (f.c as f64) * (1.0 + 1.0e-9)); // cold: about q/c
        }
        assert!(f.node.writes() == 0);
        kani::cover!(s1 < f.calc.warning_token && s2 == f.calc.max_token);
        kani::cover!(s1 >= f.calc.warning_token && s1 < s2);
    }

    /// sync_token (through calculate_allowed_threshold) once the clock is in a later second:
    /// refill only below the warning line or when the previous QPS is below floor(q/c); refill amount floor(dt*q/1000);
    /// never above max; then drained by the previous QPS, floored at 0; last refill time = start of the current second.
    /// Consequences: idle for at least 2p seconds => cold again (stored == max); first call ever => cold.
    fn check_sync(q: f64, c_cfg: u32, p: u32) {
        let f = fixture(q, c_cfg, p);
        let s0: u64 = kani::any();
        kani::assume(s0 <= f.calc.max_token);
        let last: u64 = kani::any();
        kani::assume(last < (1u64 << 40) && last % 1000 == 0);
        let now: u64 = kani::any();
        kani::assume(now >= last + 1000 && now < (1u64 << 41));
        vs::set_clock_ms(now);
        let prev: f64 = kani::any();
        kani::assume(prev >= 0.0 && prev <= 1.0e6);
        f.node.qps_prev_bits[0].store(prev.to_bits(), SeqCst);
        f.calc.last_filled_time.store(last, SeqCst);
        f.calc.stored_tokens.store(s0, SeqCst);
        let _ = f.calc.calculate_allowed_threshold(1, 0);
        let sec = now - now % 1000;
        let refill = s0 < f.calc.warning_token || prev < (q / (f.c as f64)).floor();
        let filled = if refill { s0 + (((sec - last) as f64) * q / 1000.0) as u64 } else { s0 };
        let capped = if filled > f.calc.max_token { f.calc.max_token } else { filled };
        let drained = if capped < prev as u64 { 0 } else { capped - prev as u64 };
        assert!(f.calc.stored_tokens.load(SeqCst) == drained);
        assert!(f.calc.last_filled_time.load(SeqCst) == sec);
        assert!(drained <= f.calc.max_token);
        if prev == 0.0 && sec - last >= 2 * (p as u64) * 1000 {
            assert!(drained == f.calc.max_token); // idle for 2p seconds: cold again
        }
        if last == 0 && s0 == 0 && prev == 0.0 && now >= 100_000_000 {
            assert!(drained == f.calc.max_token); // first call ever: cold
        }
        kani::cover!(refill && filled > f.calc.max_token);
        kani::cover!(!refill);
        kani::cover!(prev > 0.0 && capped < prev as u64);
    }

    macro_rules! h {
        ($name:ident, $body:ident, $q:expr, $c:expr, $p:expr) => {
            #[kani::proof]
            #[kani::unwind(2)]
            #[kani::stub(crate::core::system_metric::get_total_memory_size, vs::any_total_memory)]
            #[kani::stub(std::backtrace::Backtrace::capture, std::backtrace::Backtrace::disabled)]
            #[kani::stub(anyhow::Error::msg, vs::no_error_expected)]
            #[kani::stub(crate::utils::time::curr_time_millis, vs::clock_ms)]
            fn $name() {
                $body($q, $c, $p);
            }
        };
    }
    h!(fw_new_q100_c0_p5, check_new, 100.0, 0, 5);
    h!(fw_new_q30_c2_p1, check_new, 30.0, 2, 1);
    h!(fw_new_q500_c6_p20, check_new, 500.0, 6, 20);
    h!(fw_allowance_q100_c0_p5, check_allowance, 100.0, 0, 5);
    h!(fw_allowance_q30_c2_p1, check_allowance, 30.0, 2, 1);
    h!(fw_allowance_q500_c6_p20, check_allowance, 500.0, 6, 20);
    h!(fw_sync_q100_c0_p5, check_sync, 100.0, 0, 5);
    h!(fw_sync_q30_c2_p1, check_sync, 30.0, 2, 1);
    h!(fw_sync_q500_c6_p20, check_sync, 500.0, 6, 20);
}
