//@target core/stat/stat_slot.rs
// C04: per-call accounting of the resource statistic slot. The entry's own node is a recording StatNode; the global
// inbound node is a real ResourceNode whose write methods are replaced by recorders.
#[cfg(kani)]
pub(crate) mod verif_ss {
    use super::*;
    use crate::base::{BlockType, ConcurrencyStat, ResourceType, ResourceWrapper, SentinelInput, WriteStat};
    use crate::stat::ResourceNode;
    use crate::verif_support as vs;
    use std::sync::atomic::Ordering::SeqCst;

    static mut NODE: Option<Arc<ResourceNode>> = None;
    static mut IN_ADD_CALLS: (u32, u32, u32, u32, u32) = (0, 0, 0, 0, 0);
    static mut IN_ADD_TOTAL: (u64, u64, u64, u64, u64) = (0, 0, 0, 0, 0);
    static mut IN_INC: u32 = 0;
    static mut IN_DEC: u32 = 0;
    fn stub_inbound_node() -> Arc<ResourceNode> {
        unsafe { (&*std::ptr::addr_of!(NODE)).as_ref().unwrap().clone() }
    }
    fn stub_in_add_count(_s: &ResourceNode, e: MetricEvent, c: u64) {
        unsafe {
            match e {
                MetricEvent::Pass => {
                    IN_ADD_CALLS.0 += 1;
                    IN_ADD_TOTAL.0 += c;
                }
                MetricEvent::Block => {
                    IN_ADD_CALLS.1 += 1;
                    IN_ADD_TOTAL.1 += c;
                }
                MetricEvent::Complete => {
                    IN_ADD_CALLS.2 += 1;
                    IN_ADD_TOTAL.2 += c;
                }
                MetricEvent::Error => {
                    IN_ADD_CALLS.3 += 1;
                    IN_ADD_TOTAL.3 += c;
                }
                MetricEvent::Rt => {
                    IN_ADD_CALLS.4 += 1;
                    IN_ADD_TOTAL.4 += c;
                }
            }
        }
    }
    fn stub_in_inc(_s: &ResourceNode) {
        unsafe { IN_INC += 1 }
    }
    fn stub_in_dec(_s: &ResourceNode) {
        unsafe { IN_DEC += 1 }
    }
    fn cfg_two() -> u32 {
        2
    }
    fn cfg_1024() -> u32 {
        1024
    }

    struct Fx {
        ctx: EntryContext,
        node: Arc<vs::RecNode>,
        inbound: bool,
        batch: u32,
    }
    fn fixture(now: u64) -> Fx {
        unsafe {
            let n = Arc::new(ResourceNode::new(String::new(), ResourceType::Common));
            std::mem::forget(n.clone());
            NODE = Some(n);
            IN_ADD_CALLS = (0, 0, 0, 0, 0);
            IN_ADD_TOTAL = (0, 0, 0, 0, 0);
            IN_INC = 0;
            IN_DEC = 0;
        }
        vs::set_clock_ms(now);
        let inbound: bool = kani::any();
        let batch: u32 = kani::any();
        let node = Arc::new(vs::RecNode::new());
        std::mem::forget(node.clone());
        let mut ctx = EntryContext::new(); // start_time = now
        ctx.set_input(SentinelInput::new(batch, 0));
        ctx.set_resource(ResourceWrapper::new(
            String::from("r"),
            ResourceType::Common,
            if inbound { TrafficType::Inbound } else { TrafficType::Outbound },
        ));
        let dn: Arc<dyn StatNode> = node.clone();
        ctx.set_stat_node(dn);
        Fx { ctx, node, inbound, batch }
    }
    fn own(n: &vs::RecNode) -> ([u32; 5], [u64; 5], u32, u32) {
        (
            [n.add_calls[0].load(SeqCst), n.add_calls[1].load(SeqCst), n.add_calls[2].load(SeqCst), n.add_calls[3].load(SeqCst), n.add_calls[4].load(SeqCst)],
            [n.add_total[0].load(SeqCst), n.add_total[1].load(SeqCst), n.add_total[2].load(SeqCst), n.add_total[3].load(SeqCst), n.add_total[4].load(SeqCst)],
            n.inc_calls.load(SeqCst),
            n.dec_calls.load(SeqCst),
        )
    }
    fn mirror() -> ([u32; 5], [u64; 5], u32, u32) {
        unsafe {
            (
                [IN_ADD_CALLS.0, IN_ADD_CALLS.1, IN_ADD_CALLS.2, IN_ADD_CALLS.3, IN_ADD_CALLS.4],
                [IN_ADD_TOTAL.0, IN_ADD_TOTAL.1, IN_ADD_TOTAL.2, IN_ADD_TOTAL.3, IN_ADD_TOTAL.4],
                IN_INC,
                IN_DEC,
            )
        }
    }

    macro_rules! ss_harness {
        ($name:ident, $body:expr) => {
            #[kani::proof]
            #[kani::unwind(7)]
            #[kani::stub(crate::core::system_metric::get_total_memory_size, vs::any_total_memory)]
            #[kani::stub(std::backtrace::Backtrace::capture, std::backtrace::Backtrace::disabled)]
            #[kani::stub(anyhow::Error::msg, vs::no_error_expected)]
            #[kani::stub(crate::utils::time::format_time_nanos_curr, vs::empty_string)]
            #[kani::stub(crate::utils::time::curr_time_millis, vs::clock_ms)]
            #[kani::stub(crate::core::config::global_stat_sample_count_total, cfg_two)]
            #[kani::stub(crate::core::config::global_stat_interval_ms_total, cfg_1024)]
            #[kani::stub(crate::core::config::metric_stat_sample_count, cfg_two)]
            #[kani::stub(crate::core::config::metric_stat_interval_ms, cfg_1024)]
            #[kani::stub(crate::core::stat::node_storage::inbound_node, stub_inbound_node)]
            #[kani::stub(<ResourceNode as WriteStat>::add_count, stub_in_add_count)]
            #[kani::stub(<ResourceNode as ConcurrencyStat>::increase_concurrency, stub_in_inc)]
            #[kani::stub(<ResourceNode as ConcurrencyStat>::decrease_concurrency, stub_in_dec)]
            fn $name() {
                $body
            }
        };
    }

    // pass: own node gets increase_concurrency x1 and add_count(Pass, batch) x1 and nothing else; the global inbound
    // node gets exactly the same iff the entry is inbound
    ss_harness!(ss_on_entry_pass, {
        let f = fixture(kani::any());
        ResourceNodeStatSlot {}.on_entry_pass(&f.ctx);
        let (c, t, inc, dec) = own(&f.node);
        assert!(c[0] == 1 && t[0] == f.batch as u64 && inc == 1 && dec == 0);
        assert!(c[1] == 0 && c[2] == 0 && c[3] == 0 && c[4] == 0);
        let (mc, mt, minc, mdec) = mirror();
        let k = f.inbound as u32;
        assert!(mc[0] == k && mt[0] == (f.batch as u64) * k as u64 && minc == k && mdec == 0);
        assert!(mc[1] == 0 && mc[2] == 0 && mc[3] == 0 && mc[4] == 0);
        let inb = f.inbound;
        let bt = f.batch;
        std::mem::forget(f.ctx);
        kani::cover!(inb && bt > 1);
        kani::cover!(!inb);
    });

    // blocked: only add_count(Block, batch) (mirrored iff inbound); the in-flight count and completions are untouched
    ss_harness!(ss_on_entry_blocked, {
        let f = fixture(kani::any());
        ResourceNodeStatSlot {}.on_entry_blocked(&f.ctx, BlockError::new(BlockType::Flow));
        let (c, t, inc, dec) = own(&f.node);
        assert!(c[1] == 1 && t[1] == f.batch as u64 && inc == 0 && dec == 0);
        assert!(c[0] == 0 && c[2] == 0 && c[3] == 0 && c[4] == 0);
        let (mc, mt, minc, mdec) = mirror();
        let k = f.inbound as u32;
        assert!(mc[1] == k && mt[1] == (f.batch as u64) * k as u64 && minc == 0 && mdec == 0);
        assert!(mc[0] == 0 && mc[2] == 0 && mc[3] == 0 && mc[4] == 0);
        let inb = f.inbound;
        std::mem::forget(f.ctx);
        kani::cover!(inb);
        kani::cover!(!inb);
    });

    // completed: Rt(now - start) x1, Complete(batch) x1, decrease_concurrency x1 (mirrored iff inbound);
    // ctx.round_trip == now - start
    ss_harness!(ss_on_completed, {
        let start: u64 = kani::any();
        let dt: u64 = kani::any();
        kani::assume(start < (1u64 << 50) && dt < (1u64 << 40));
        let mut f = fixture(start);
        vs::set_clock_ms(start + dt);
        ResourceNodeStatSlot {}.on_completed(&mut f.ctx);
        assert!(f.ctx.round_trip() == dt);
        let (c, t, inc, dec) = own(&f.node);
        assert!(c[4] == 1 && t[4] == dt && c[2] == 1 && t[2] == f.batch as u64 && dec == 1 && inc == 0);
        assert!(c[0] == 0 && c[1] == 0 && c[3] == 0);
        let (mc, mt, minc, mdec) = mirror();
        let k = f.inbound as u32;
        assert!(mc[4] == k && mt[4] == dt * k as u64 && mc[2] == k && mt[2] == (f.batch as u64) * k as u64 && mdec == k && minc == 0);
        assert!(mc[0] == 0 && mc[1] == 0 && mc[3] == 0);
        let inb = f.inbound;
        std::mem::forget(f.ctx);
        kani::cover!(inb && dt > 0);
        kani::cover!(!inb);
    });
}
