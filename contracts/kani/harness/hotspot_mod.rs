//@target core/hotspot/traffic_shaping/mod.rs
// C05 (hotspot part): per-value concurrency cap, and argument extraction (positional part)
#[cfg(kani)]
pub(crate) mod verif_hm {
    use super::*;
    use crate::base::SentinelRule;
    use crate::core::hotspot::cache::verif_hc::MapCounter;
    use crate::core::hotspot::traffic_shaping::reject::verif_hr::{fmt_stub, mk_rule, stub_random_state};
    use crate::verif_support as vs;

    /// perform_checking_for_concurrency_metric: first sight => admitted and the value is now tracked with 0;
    /// otherwise admitted <=> current + 1 <= threshold; a rejection is a HotSpotParamFlow block naming the rule;
    /// the check itself never changes a counter; the other value is untouched
    #[kani::proof]
    #[kani::unwind(3)]
    #[kani::stub(crate::core::system_metric::get_total_memory_size, vs::any_total_memory)]
    #[kani::stub(std::backtrace::Backtrace::capture, std::backtrace::Backtrace::disabled)]
    #[kani::stub(anyhow::Error::msg, vs::no_error_expected)]
    #[kani::stub(std::collections::hash_map::RandomState::new, stub_random_state)]
    #[kani::stub(alloc::fmt::format, fmt_stub)]
    fn hm_concurrency_check() {
        let t: u64 = kani::any();
        let rule = mk_rule(MetricType::Concurrency, ControlStrategy::Reject, t, 0, 1, 0);
        let metric = Arc::new(ParamsMetric::<MapCounter> {
            rule_time_counter: MapCounter::with_capacity(0),
            rule_token_counter: MapCounter::with_capacity(0),
            concurrency_counter: MapCounter::with_capacity(2),
        });
        std::mem::forget(metric.clone());
        let o_cur: u64 = kani::any();
        metric.concurrency_counter.preload("o", o_cur);
        let present: bool = kani::any();
        let cur: u64 = kani::any();
        kani::assume(cur < u64::MAX);
        if present {
            metric.concurrency_counter.preload("a", cur);
        }
        let ctl = Controller::<MapCounter>::new_with_metric(rule.clone(), metric.clone());
        let r = ctl.perform_checking_for_concurrency_metric(String::from("a"));
        if !present {
            assert!(r.is_pass() && metric.concurrency_counter.peek("a") == Some(0));
        } else {
            assert!(r.is_pass() == (cur + 1 <= t));
            assert!(metric.concurrency_counter.peek("a") == Some(cur));
            if !r.is_pass() {
                let e = r.block_err().unwrap();
                assert!(e.block_type() == BlockType::HotSpotParamFlow);
                let want: Arc<dyn SentinelRule> = rule.clone();
                assert!(Arc::ptr_eq(&e.triggered_rule().unwrap(), &want));
            }
        }
        assert!(metric.concurrency_counter.peek("o") == Some(o_cur));
        std::mem::forget(r);
        std::mem::forget(ctl);
        kani::cover!(present && cur + 1 == t); // exactly at the cap is admitted
        kani::cover!(present && cur == t);
        kani::cover!(!present);
    }

    /// extract_args, positional part (no attachments): index i >= 0 selects args[i], a negative index counts from the
    /// end, anything out of range or a missing argument list yields None; never panics for any isize index and 0..3 arguments
    #[kani::proof]
    #[kani::unwind(5)]
    #[kani::stub(crate::core::system_metric::get_total_memory_size, vs::any_total_memory)]
    #[kani::stub(std::backtrace::Backtrace::capture, std::backtrace::Backtrace::disabled)]
    #[kani::stub(anyhow::Error::msg, vs::no_error_expected)]
    #[kani::stub(std::collections::hash_map::RandomState::new, stub_random_state)]
    #[kani::stub(alloc::fmt::format, fmt_stub)]
    fn hm_extract_list_args() {
        let idx: isize = kani::any();
        let mut rule = (*mk_rule(MetricType::QPS, ControlStrategy::Reject, 1, 0, 1, 0)).clone();
        rule.param_index = idx;
        let rule = Arc::new(rule);
        std::mem::forget(rule.clone());
        let metric = Arc::new(ParamsMetric::<MapCounter> {
            rule_time_counter: MapCounter::with_capacity(0),
            rule_token_counter: MapCounter::with_capacity(0),
            concurrency_counter: MapCounter::with_capacity(0),
        });
        std::mem::forget(metric.clone());
        let ctl = Controller::<MapCounter>::new_with_metric(rule, metric);
        let n: usize = kani::any();
        kani::assume(n <= 3);
        let has_args: bool = kani::any();
        let mut ctx = crate::core::base::context::verif_ctx::mk_ctx("r", false, 1, 0, None);
        if has_args {
            let mut v: Vec<String> = Vec::with_capacity(3);
            if n > 0 { v.push(String::from("a")); }
            if n > 1 { v.push(String::from("b")); }
            if n > 2 { v.push(String::from("c")); }
            let mut input = crate::base::SentinelInput::new(1, 0);
            input.set_args(v);
            ctx.set_input(input);
        }
        let r = ctl.extract_args(&ctx);
        let want: Option<usize> = if !has_args { None } else if idx >= 0 {
            if (idx as usize) < n { Some(idx as usize) } else { None }
        } else if idx >= -(n as isize) { Some((idx + n as isize) as usize) } else { None };
        match (r, want) {
            (None, None) => {}
            (Some(s), Some(i)) => assert!(s.as_bytes()[0] == b'a' + i as u8),
            _ => assert!(false, "wrong argument selected"),
        }
        std::mem::forget(ctx);
        std::mem::forget(ctl);
        kani::cover!(has_args && idx == -1 && n == 3);
        kani::cover!(has_args && idx == -4 && n == 3);
        kani::cover!(has_args && idx == 2 && n == 3);
    }
}
