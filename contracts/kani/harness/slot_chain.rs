//@target core/base/slot_chain.rs
// C13: the slot chain contract, with recording slots (symbolic order values and verdicts).
#[cfg(kani)]
pub(crate) mod verif_sc {
    use super::*;
    use crate::base::{BlockType, EntryWeakPtr, SentinelInput};
    use crate::verif_support as vs;
    use std::sync::RwLock;

    // event log: one byte per call, (kind << 4) | slot id, appended to a u128
    // kinds: 1 prepare, 2 check, 3 on_entry_pass, 4 on_entry_blocked, 5 on_completed
    static mut LOG: u128 = 0;
    static mut LOG_LEN: u32 = 0;
    static mut BLOCKED_WITH: u8 = 0; // block-type tag seen by the last on_entry_blocked
    fn log(kind: u8, id: u8) {
        unsafe {
            LOG = (LOG << 8) | (((kind << 4) | id) as u128);
            LOG_LEN += 1;
        }
    }
    fn log_reset() {
        unsafe {
            LOG = 0;
            LOG_LEN = 0;
            BLOCKED_WITH = 0;
        }
    }
    fn expect(acc: &mut (u128, u32), kind: u8, id: u8) {
        acc.0 = (acc.0 << 8) | (((kind << 4) | id) as u128);
        acc.1 += 1;
    }

    struct RecPrep {
        order: u32,
        id: u8,
    }
    impl BaseSlot for RecPrep {
        fn order(&self) -> u32 {
            self.order
        }
    }
    impl StatPrepareSlot for RecPrep {
        fn prepare(&self, _ctx: &mut EntryContext) {
            log(1, self.id)
        }
    }
    /// verdict: 0 Pass, 1 Blocked(Other(id)), 2 Wait(wait)
    struct RecCheck {
        order: u32,
        id: u8,
        verdict: u8,
        wait: u64,
    }
    impl BaseSlot for RecCheck {
        fn order(&self) -> u32 {
            self.order
        }
    }
    impl RuleCheckSlot for RecCheck {
        fn check(&self, _ctx: &mut EntryContext) -> TokenResult {
            log(2, self.id);
            match self.verdict {
                0 => TokenResult::new_pass(),
                1 => TokenResult::new_blocked(BlockType::Other(self.id)),
                _ => TokenResult::new_should_wait(self.wait),
            }
        }
    }
    struct RecStat {
        order: u32,
        id: u8,
    }
    impl BaseSlot for RecStat {
        fn order(&self) -> u32 {
            self.order
        }
    }
    impl StatSlot for RecStat {
        fn on_entry_pass(&self, _ctx: &EntryContext) {
            log(3, self.id)
        }
        fn on_entry_blocked(&self, _ctx: &EntryContext, e: BlockError) {
            log(4, self.id);
            if let BlockType::Other(t) = e.block_type() {
                unsafe { BLOCKED_WITH = t }
            }
        }
        fn on_completed(&self, _ctx: &mut EntryContext) {
            log(5, self.id)
        }
    }

    // The real slots of the crate are not part of the chains built here, but CBMC resolves `dyn RuleCheckSlot::check`
    // etc. to every implementation in the program. Their bodies are replaced by "not part of this chain" assertions,
    // which keeps the global rule tables out of the formula and would flag any dispatch to them.
    fn nic_flow_check(_s: &crate::core::flow::slot::Slot, _ctx: &mut EntryContext) -> TokenResult {
        kani::assert(false, "slot not part of this chain");
        TokenResult::new_pass()
    }
    fn nic_iso_check(_s: &crate::core::isolation::slot::AdaptiveSlot, _ctx: &mut EntryContext) -> TokenResult {
        kani::assert(false, "slot not part of this chain");
        TokenResult::new_pass()
    }
    fn nic_sys_check(_s: &crate::core::system::slot::AdaptiveSlot, _ctx: &mut EntryContext) -> TokenResult {
        kani::assert(false, "slot not part of this chain");
        TokenResult::new_pass()
    }
    fn nic_cb_check(_s: &crate::core::circuitbreaker::slot::Slot, _ctx: &mut EntryContext) -> TokenResult {
        kani::assert(false, "slot not part of this chain");
        TokenResult::new_pass()
    }
    fn nic_hs_check(_s: &crate::core::hotspot::slot::Slot, _ctx: &mut EntryContext) -> TokenResult {
        kani::assert(false, "slot not part of this chain");
        TokenResult::new_pass()
    }
    fn nic_rn_prepare(_s: &crate::core::stat::ResourceNodePrepareSlot, _ctx: &mut EntryContext) {
        kani::assert(false, "slot not part of this chain");
    }
    fn nic_rn_pass(_s: &crate::core::stat::ResourceNodeStatSlot, _ctx: &EntryContext) {
        kani::assert(false, "slot not part of this chain");
    }
    fn nic_rn_blocked(_s: &crate::core::stat::ResourceNodeStatSlot, _ctx: &EntryContext, _e: BlockError) {
        kani::assert(false, "slot not part of this chain");
    }
    fn nic_rn_completed(_s: &crate::core::stat::ResourceNodeStatSlot, _ctx: &mut EntryContext) {
        kani::assert(false, "slot not part of this chain");
    }
    fn nic_fss_pass(_s: &crate::core::flow::standalone_stat_slot::StandaloneStatSlot, _ctx: &EntryContext) {
        kani::assert(false, "slot not part of this chain");
    }
    fn nic_hcs_pass(_s: &crate::core::hotspot::concurrency_stat_slot::ConcurrencyStatSlot, _ctx: &EntryContext) {
        kani::assert(false, "slot not part of this chain");
    }
    fn nic_hcs_completed(_s: &crate::core::hotspot::concurrency_stat_slot::ConcurrencyStatSlot, _ctx: &mut EntryContext) {
        kani::assert(false, "slot not part of this chain");
    }
    fn nic_cbs_completed(_s: &crate::core::circuitbreaker::stat_slot::MetricStatSlot, _ctx: &mut EntryContext) {
        kani::assert(false, "slot not part of this chain");
    }

    macro_rules! sc_harness {
        ($name:ident, $unw:expr, $body:expr) => {
            #[kani::proof]
            #[kani::unwind($unw)]
            #[kani::stub(crate::core::system_metric::get_total_memory_size, vs::any_total_memory)]
            #[kani::stub(std::backtrace::Backtrace::capture, std::backtrace::Backtrace::disabled)]
            #[kani::stub(anyhow::Error::msg, vs::no_error_expected)]
            #[kani::stub(crate::utils::time::format_time_nanos_curr, vs::empty_string)]
            #[kani::stub(crate::utils::time::curr_time_millis, vs::clock_ms)]
            #[kani::stub(<crate::core::flow::slot::Slot as RuleCheckSlot>::check, nic_flow_check)]
            #[kani::stub(<crate::core::isolation::slot::AdaptiveSlot as RuleCheckSlot>::check, nic_iso_check)]
            #[kani::stub(<crate::core::system::slot::AdaptiveSlot as RuleCheckSlot>::check, nic_sys_check)]
            #[kani::stub(<crate::core::circuitbreaker::slot::Slot as RuleCheckSlot>::check, nic_cb_check)]
            #[kani::stub(<crate::core::hotspot::slot::Slot as RuleCheckSlot>::check, nic_hs_check)]
            #[kani::stub(<crate::core::stat::ResourceNodePrepareSlot as StatPrepareSlot>::prepare, nic_rn_prepare)]
            #[kani::stub(<crate::core::stat::ResourceNodeStatSlot as StatSlot>::on_entry_pass, nic_rn_pass)]
            #[kani::stub(<crate::core::stat::ResourceNodeStatSlot as StatSlot>::on_entry_blocked, nic_rn_blocked)]
            #[kani::stub(<crate::core::stat::ResourceNodeStatSlot as StatSlot>::on_completed, nic_rn_completed)]
            #[kani::stub(<crate::core::flow::standalone_stat_slot::StandaloneStatSlot as StatSlot>::on_entry_pass, nic_fss_pass)]
            #[kani::stub(<crate::core::hotspot::concurrency_stat_slot::ConcurrencyStatSlot as StatSlot>::on_entry_pass, nic_hcs_pass)]
            #[kani::stub(<crate::core::hotspot::concurrency_stat_slot::ConcurrencyStatSlot as StatSlot>::on_completed, nic_hcs_completed)]
            #[kani::stub(<crate::core::circuitbreaker::stat_slot::MetricStatSlot as StatSlot>::on_completed, nic_cbs_completed)]
            fn $name() {
                $body
            }
        };
    }

    /// chain with NP prepare, NC check, NS stat slots, each added through the real add_* with a symbolic order value
    /// symbolic order value; with `tagged` the low 3 bits carry the slot id, so the harness can read the execution order
    /// from `order()` alone (order values are then distinct across slots; the free/equal case is sc_add_keeps_sorted_*)
    fn any_order(tagged: bool, id: u8) -> u32 {
        let o: u32 = kani::any();
        if tagged { (o & !7u32) | id as u32 } else { o }
    }
    fn new_ctx() -> Arc<RwLock<EntryContext>> {
        let c = Arc::new(RwLock::new(crate::core::base::context::verif_ctx::mk_ctx("r", false, 1, 0, None)));
        std::mem::forget(c.clone()); // never dropped (see context.rs harness)
        c
    }
    fn build<const NP: usize, const NC: usize, const NS: usize>(tagged: bool) -> (SlotChain, [u8; NC], [u64; NC]) {
        let mut sc = SlotChain::new();
        for i in 0..NP {
            sc.add_stat_prepare_slot(Arc::new(RecPrep { order: any_order(tagged, i as u8 + 1), id: i as u8 + 1 }));
        }
        let mut verdicts = [0u8; NC];
        let mut waits = [0u64; NC];
        for i in 0..NC {
            verdicts[i] = kani::any();
            kani::assume(verdicts[i] <= 2);
            waits[i] = kani::any();
            sc.add_rule_check_slot(Arc::new(RecCheck { order: any_order(tagged, i as u8 + 1), id: i as u8 + 1, verdict: verdicts[i], wait: waits[i] }));
        }
        for i in 0..NS {
            sc.add_stat_slot(Arc::new(RecStat { order: any_order(tagged, i as u8 + 1), id: i as u8 + 1 }));
        }
        (sc, verdicts, waits)
    }

    // add_*: after every insertion the vector is ascending by order() and holds exactly the slots added (3 per kind)
    sc_harness!(sc_add_keeps_sorted_permutation_3, 11, {
        let (sc, _, _) = build::<3, 3, 3>(false);
        assert!(sc.stat_pres.len() == 3 && sc.rule_checks.len() == 3 && sc.stats.len() == 3);
        for i in 0..2 {
            assert!(sc.stat_pres[i].order() <= sc.stat_pres[i + 1].order());
            assert!(sc.rule_checks[i].order() <= sc.rule_checks[i + 1].order());
            assert!(sc.stats[i].order() <= sc.stats[i + 1].order());
        }
        // permutation: run the chain once and look at which ids were called
        log_reset();
        let _ = sc.entry(new_ctx());
        let mut seen_p = 0u8;
        let mut seen_c = 0u8;
        let mut seen_s = 0u8;
        let mut l = unsafe { LOG };
        let n = unsafe { LOG_LEN };
        assert!(n == 9);
        for _ in 0..9 {
            let b = (l & 0xff) as u8;
            l >>= 8;
            let bit = 1u8 << (b & 0xf);
            match b >> 4 {
                1 => seen_p |= bit,
                2 => seen_c |= bit,
                _ => seen_s |= bit,
            }
        }
        assert!(seen_p == 0b1110 && seen_c == 0b1110 && seen_s == 0b1110);
        kani::cover!(sc.rule_checks[0].order() == sc.rule_checks[1].order());
        kani::cover!(sc.rule_checks[0].order() < sc.rule_checks[2].order());
    });

    // entry: all prepares, then all checks in vector (= ascending order) order, then all stats in vector order;
    // blocked <=> some check blocked; the error delivered is one produced by a slot that blocked; each stat slot gets
    // exactly one notification (pass iff not blocked, else blocked with that error); ctx.result() == returned value
    fn check_entry<const NP: usize, const NC: usize, const NS: usize>() {
        let (sc, verdicts, _waits) = build::<NP, NC, NS>(true);
        log_reset();
        let ctx = new_ctx();
        let r = sc.entry(ctx.clone());
        let any_blocked = {
            let mut b = false;
            for i in 0..NC {
                b = b || verdicts[i] == 1;
            }
            b
        };
        let mut exp = (0u128, 0u32);
        for i in 0..NP {
            expect(&mut exp, 1, (sc.stat_pres[i].order() & 7) as u8);
        }
        for i in 0..NC {
            expect(&mut exp, 2, (sc.rule_checks[i].order() & 7) as u8);
        }
        for i in 0..NS {
            expect(&mut exp, if any_blocked { 4 } else { 3 }, (sc.stats[i].order() & 7) as u8);
        }
        unsafe {
            assert!(LOG_LEN == exp.1);
            assert!(LOG == exp.0);
        }
        assert!(r.is_blocked() == any_blocked);
        if any_blocked {
            match r.block_err().unwrap().block_type() {
                BlockType::Other(t) => {
                    assert!(t >= 1 && (t as usize) <= NC && verdicts[t as usize - 1] == 1); // produced by a slot that blocked
                    if NS > 0 {
                        assert!(unsafe { BLOCKED_WITH } == t); // the same error is handed to the stat slots
                    }
                }
                _ => assert!(false, "error not produced by any check slot"),
            }
        } else {
            assert!(r.is_pass()); // a Wait verdict does not block and is not turned into the chain's result
        }
        {
            let g = ctx.read().unwrap();
            assert!(g.result().is_blocked() == any_blocked && g.result().is_pass() == !any_blocked);
        }
        std::mem::forget(r);
        kani::cover!(any_blocked && (NC < 2 || (verdicts[0] == 1 && verdicts[NC - 1] == 0))); // a later Pass must not clear the block
        kani::cover!(!any_blocked && verdicts[0] == 2);
    }
    sc_harness!(sc_entry_2_3_2, 6, { check_entry::<2, 3, 2>() });
    sc_harness!(sc_entry_0_1_1, 4, { check_entry::<0, 1, 1>() });
    sc_harness!(sc_entry_1_2_0, 5, { check_entry::<1, 2, 0>() });

    // exit: on_completed once per stat slot, in vector order, iff the context has an entry and is not blocked
    sc_harness!(sc_exit_2, 5, {
        let (sc, _, _) = build::<0, 0, 2>(true);
        let mut c = crate::core::base::context::verif_ctx::mk_ctx("r", false, 1, 0, None);
        let has_entry: bool = kani::any();
        let blocked: bool = kani::any();
        if has_entry {
            let w: EntryWeakPtr = std::sync::Weak::new();
            c.set_entry(w);
        }
        if blocked {
            c.set_result(TokenResult::new_blocked(BlockType::Other(9)));
        }
        let ctx = Arc::new(RwLock::new(c));
        std::mem::forget(ctx.clone());
        log_reset();
        sc.exit(ctx);
        let mut exp = (0u128, 0u32);
        if has_entry && !blocked {
            for i in 0..2 {
                expect(&mut exp, 5, (sc.stats[i].order() & 7) as u8);
            }
        }
        unsafe {
            assert!(LOG_LEN == exp.1 && LOG == exp.0);
        }
        kani::cover!(has_entry && !blocked);
        kani::cover!(has_entry && blocked);
        kani::cover!(!has_entry);
    });

    // equal order values: two slots of each kind sharing ONE (symbolic) order value are both kept and both run exactly once
    sc_harness!(sc_equal_orders_all_slots_run, 8, {
        let o: u32 = kani::any();
        let mut sc = SlotChain::new();
        sc.add_stat_prepare_slot(Arc::new(RecPrep { order: o, id: 1 }));
        sc.add_stat_prepare_slot(Arc::new(RecPrep { order: o, id: 2 }));
        sc.add_rule_check_slot(Arc::new(RecCheck { order: o, id: 1, verdict: 0, wait: 0 }));
        sc.add_rule_check_slot(Arc::new(RecCheck { order: o, id: 2, verdict: 0, wait: 0 }));
        sc.add_stat_slot(Arc::new(RecStat { order: o, id: 1 }));
        sc.add_stat_slot(Arc::new(RecStat { order: o, id: 2 }));
        assert!(sc.stat_pres.len() == 2 && sc.rule_checks.len() == 2 && sc.stats.len() == 2);
        log_reset();
        let r = sc.entry(new_ctx());
        assert!(r.is_pass());
        let mut l = unsafe { LOG };
        assert!(unsafe { LOG_LEN } == 6);
        let mut seen = [0u8; 4];
        for _ in 0..6 {
            let b = (l & 0xff) as u8;
            l >>= 8;
            seen[(b >> 4) as usize] |= 1u8 << (b & 0xf);
        }
        assert!(seen[1] == 0b110 && seen[2] == 0b110 && seen[3] == 0b110);
        std::mem::forget(r);
        kani::cover!(o == 0);
        kani::cover!(o > 1000);
    });
}
