//@target core/isolation/slot.rs
// C05 (isolation part): exact admission predicate, triggering rule, observed value, block type.
#[cfg(kani)]
pub(crate) mod verif_iso {
    use super::*;
    use crate::base::{ResourceType, ResourceWrapper, SentinelInput, SentinelRule, StatNode, TrafficType};
    use crate::verif_support as vs;
    use std::sync::atomic::Ordering::SeqCst;

    static mut RULES: Option<Vec<Arc<Rule>>> = None;
    fn stub_rules_of_resource(_res: &String) -> Vec<Arc<Rule>> {
        unsafe {
            match &*std::ptr::addr_of!(RULES) {
                Some(v) => v.clone(),
                None => Vec::new(),
            }
        }
    }
    fn any_rule() -> Arc<Rule> {
        let r = Arc::new(Rule { id: String::new(), resource: String::from("r"), metric_type: MetricType::Concurrency, threshold: kani::any() });
        std::mem::forget(r.clone());
        r
    }
    fn mk_ctx(name: &str, batch: u32, cur: u32) -> (EntryContext, Arc<vs::RecNode>) {
        let node = Arc::new(vs::RecNode::new());
        node.conc.store(cur, SeqCst);
        std::mem::forget(node.clone());
        let mut ctx = EntryContext::new();
        ctx.set_input(SentinelInput::new(batch, 0));
        ctx.set_resource(ResourceWrapper::new(String::from(name), ResourceType::Common, TrafficType::Outbound));
        let dn: Arc<dyn StatNode> = node.clone();
        ctx.set_stat_node(dn);
        (ctx, node)
    }

    macro_rules! iso_harness {
        ($name:ident, $body:expr, $unw:expr) => {
            #[kani::proof]
            #[kani::unwind($unw)]
            #[kani::stub(crate::core::system_metric::get_total_memory_size, vs::any_total_memory)]
            #[kani::stub(std::backtrace::Backtrace::capture, std::backtrace::Backtrace::disabled)]
            #[kani::stub(anyhow::Error::msg, vs::no_error_expected)]
            #[kani::stub(crate::utils::time::format_time_nanos_curr, vs::empty_string)]
            #[kani::stub(crate::utils::time::curr_time_millis, vs::clock_ms)]
            #[kani::stub(crate::core::isolation::rule_manager::get_rules_of_resource, stub_rules_of_resource)]
            fn $name() {
                $body
            }
        };
    }

    // can_pass_check with 2 rules: passed <=> for every rule cur + batch <= threshold; on failure the returned rule is
    // a violated one (the first) and the snapshot is the observed in-flight count; nothing is written
    iso_harness!(
        iso_can_pass_check_two_rules,
        {
            let r0 = any_rule();
            let r1 = any_rule();
            let mut rv = Vec::with_capacity(2);
            rv.push(r0.clone());
            rv.push(r1.clone());
            unsafe { RULES = Some(rv) };
            let batch: u32 = kani::any();
            let cur: u32 = kani::any();
            kani::assume(batch <= (1u32 << 30) && cur <= (1u32 << 30)); // the real u32 sum cannot overflow
            let (ctx, node) = mk_ctx("r", batch, cur);
            let (passed, rule, snap) = can_pass_check(&ctx, &String::from("r"));
            let fits0 = cur as u64 + batch as u64 <= r0.threshold as u64;
            let fits1 = cur as u64 + batch as u64 <= r1.threshold as u64;
            assert!(passed == (fits0 && fits1));
            if !passed {
                let want = if !fits0 { r0.clone() } else { r1.clone() };
                assert!(Arc::ptr_eq(&rule.unwrap(), &want));
                let s = snap.unwrap();
                // the snapshot was created from a u32: read it through the data pointer (Any::downcast needs vtable entries that
                // -Z restrict-vtable cannot resolve)
                let v = unsafe { *(Arc::as_ptr(&s) as *const u32) };
                assert!(v == cur);
            } else {
                assert!(rule.is_none() && snap.is_none());
            }
            assert!(node.writes() == 0);
            std::mem::forget(ctx);
            kani::cover!(fits0 && !fits1);
            kani::cover!(passed && cur as u64 + batch as u64 == r0.threshold as u64); // exactly at the cap is admitted
        },
        4
    );

    // AdaptiveSlot::check: Blocked <=> some rule is violated; the rejection is an ISOLATION block naming the triggering
    // rule; ctx.result() equals the returned value; empty resource name => untouched
    iso_harness!(
        iso_slot_check_block_type_and_rule,
        {
            let r0 = any_rule();
            let mut rv = Vec::with_capacity(1);
            rv.push(r0.clone());
            unsafe { RULES = Some(rv) };
            let batch: u32 = kani::any();
            let cur: u32 = kani::any();
            kani::assume(batch <= (1u32 << 30) && cur <= (1u32 << 30));
            let (mut ctx, _node) = mk_ctx("r", batch, cur);
            let r = AdaptiveSlot {}.check(&mut ctx);
            let fits = cur as u64 + batch as u64 <= r0.threshold as u64;
            if fits {
                assert!(r.is_pass() && ctx.result().is_pass());
            } else {
                assert!(r.is_blocked() && ctx.result().is_blocked());
                let e = r.block_err().unwrap();
                assert!(e.block_type() == BlockType::Isolation);
                let want: Arc<dyn SentinelRule> = r0.clone();
                assert!(Arc::ptr_eq(&e.triggered_rule().unwrap(), &want));
            }
            std::mem::forget(ctx);
            kani::cover!(fits);
            kani::cover!(!fits);
        },
        3
    );

    iso_harness!(
        iso_slot_check_empty_name_untouched,
        {
            let mut rv = Vec::with_capacity(1);
            rv.push(any_rule());
            unsafe { RULES = Some(rv) };
            let (mut ctx, node) = mk_ctx("", kani::any(), kani::any());
            let r = AdaptiveSlot {}.check(&mut ctx);
            assert!(r.is_pass() && ctx.result().is_pass());
            assert!(node.reads.load(SeqCst) == 0);
            std::mem::forget(ctx);
            kani::cover!(true);
        },
        3
    );
}
