//@target core/circuitbreaker/slot.rs
// C03: the circuit-breaker rule-check slot and statistic slot, with recording breakers
// (`get_breakers_of_resource`, a global HashMap lookup, is replaced by a stub returning the harness's breakers)
#[cfg(kani)]
pub(crate) mod verif_cbsl {
    use super::*;
    use crate::core::base::context::verif_ctx::mk_ctx;
    use crate::core::circuitbreaker::breaker::verif_cb::{mk_base, mk_rule};
    use crate::core::circuitbreaker::stat_slot::MetricStatSlot;
    use crate::core::stat::verif_la::mk_ring_of;
    use crate::verif_support as vs;
    use crate::base::StatSlot;
    use crate::Error;
    use std::sync::atomic::{AtomicU32, AtomicU64, Ordering::SeqCst};

    /// breaker whose admission verdict is chosen by the harness; records every call
    pub(crate) struct RecBreaker {
        base: BreakerBase,
        stat: Arc<CounterLeapArray>,
        admit: bool,
        try_calls: AtomicU32,
        seq: AtomicU32,
        complete_calls: AtomicU32,
        last_rt: AtomicU64,
        last_err: AtomicU32,
    }
    impl CircuitBreakerTrait for RecBreaker {
        fn breaker(&self) -> &BreakerBase {
            &self.base
        }
        fn stat(&self) -> &Arc<CounterLeapArray> {
            &self.stat
        }
        fn try_pass(&self, _ctx: &EntryContext) -> bool {
            self.try_calls.fetch_add(1, SeqCst);
            self.seq.store(vs::next_seq(), SeqCst);
            self.admit
        }
        fn on_request_complete(&self, rt: u64, e: &Option<Error>) {
            self.complete_calls.fetch_add(1, SeqCst);
            self.last_rt.store(rt, SeqCst);
            self.last_err.store(e.is_some() as u32, SeqCst);
        }
    }
    fn any_breaker() -> Arc<RecBreaker> {
        let stat = Arc::new(mk_ring_of::<Counter, 1>(1024, &[0u64], [Counter::default()]));
        std::mem::forget(stat.clone());
        let b = Arc::new(RecBreaker {
            base: mk_base(mk_rule(BreakerStrategy::ErrorCount, 0, 0.0, 0), State::Closed, 0, 0),
            stat,
            admit: kani::any(),
            try_calls: AtomicU32::new(0),
            seq: AtomicU32::new(0),
            complete_calls: AtomicU32::new(0),
            last_rt: AtomicU64::new(0),
            last_err: AtomicU32::new(9),
        });
        std::mem::forget(b.clone());
        b
    }
    static mut BREAKERS: Option<Vec<Arc<dyn CircuitBreakerTrait>>> = None;
    fn stub_breakers(_res: &String) -> Vec<Arc<dyn CircuitBreakerTrait>> {
        unsafe {
            match &*std::ptr::addr_of!(BREAKERS) {
                Some(v) => v.clone(),
                None => Vec::new(),
            }
        }
    }
    fn install(b0: &Arc<RecBreaker>, b1: &Arc<RecBreaker>) {
        let mut v: Vec<Arc<dyn CircuitBreakerTrait>> = Vec::with_capacity(2);
        v.push(b0.clone());
        v.push(b1.clone());
        unsafe { BREAKERS = Some(v) };
    }

    macro_rules! h {
        ($name:ident, $body:expr) => {
            #[kani::proof]
            #[kani::unwind(4)]
            #[kani::stub(crate::core::system_metric::get_total_memory_size, vs::any_total_memory)]
            #[kani::stub(std::backtrace::Backtrace::capture, std::backtrace::Backtrace::disabled)]
            #[kani::stub(anyhow::Error::msg, vs::no_error_expected)]
            #[kani::stub(crate::core::circuitbreaker::rule_manager::get_breakers_of_resource, stub_breakers)]
            fn $name() {
                $body
            }
        };
    }

    // Slot::check with two breakers: blocked iff some breaker refuses; the block is a CircuitBreaking block; breakers are
    // consulted in order, each at most once, and none after the first refusal; ctx.result() == returned value
    h!(cbsl_slot_check_2, {
        let b0 = any_breaker();
        let b1 = any_breaker();
        install(&b0, &b1);
        let mut ctx = mk_ctx("r", false, 1, 0, None);
        let r = Slot {}.check(&mut ctx);
        let blocked = !b0.admit || !b1.admit;
        assert!(r.is_blocked() == blocked && ctx.result().is_blocked() == blocked);
        if blocked {
            assert!(r.block_err().unwrap().block_type() == BlockType::CircuitBreaking);
        } else {
            assert!(r.is_pass());
        }
        assert!(b0.try_calls.load(SeqCst) == 1);
        assert!(b1.try_calls.load(SeqCst) == b0.admit as u32);
        if b0.admit {
            assert!(b1.seq.load(SeqCst) > b0.seq.load(SeqCst));
        }
        assert!(b0.complete_calls.load(SeqCst) == 0 && b1.complete_calls.load(SeqCst) == 0);
        std::mem::forget(ctx);
        std::mem::forget(r);
        kani::cover!(b0.admit && !b1.admit);
        kani::cover!(!blocked);
    });

    // empty resource name: untouched, no breaker consulted
    h!(cbsl_slot_check_empty_name, {
        let b0 = any_breaker();
        let b1 = any_breaker();
        install(&b0, &b1);
        let mut ctx = mk_ctx("", false, 1, 0, None);
        let r = Slot {}.check(&mut ctx);
        assert!(r.is_pass() && b0.try_calls.load(SeqCst) == 0 && b1.try_calls.load(SeqCst) == 0);
        std::mem::forget(ctx);
        kani::cover!(true);
    });

    // MetricStatSlot::on_completed: every breaker of the resource receives (round_trip, error?) exactly once;
    // pass / blocked notifications reach no breaker
    h!(cbsl_stat_on_completed_2, {
        let b0 = any_breaker();
        let b1 = any_breaker();
        install(&b0, &b1);
        let mut ctx = mk_ctx("r", false, 1, 0, None);
        let rt: u64 = kani::any();
        ctx.set_round_trip(rt);
        let s = MetricStatSlot {};
        s.on_entry_pass(&ctx);
        assert!(b0.complete_calls.load(SeqCst) == 0 && b0.try_calls.load(SeqCst) == 0);
        s.on_completed(&mut ctx);
        assert!(b0.complete_calls.load(SeqCst) == 1 && b1.complete_calls.load(SeqCst) == 1);
        assert!(b0.last_rt.load(SeqCst) == rt && b1.last_rt.load(SeqCst) == rt);
        assert!(b0.last_err.load(SeqCst) == 0 && b1.last_err.load(SeqCst) == 0); // the context carries no error
        assert!(b0.try_calls.load(SeqCst) == 0 && b1.try_calls.load(SeqCst) == 0);
        std::mem::forget(ctx);
        kani::cover!(rt > 0);
    });
}
