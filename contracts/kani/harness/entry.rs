//@target core/base/entry.rs
// SentinelEntry: the exit handlers. `run_exit_handlers` invokes the registered handlers exactly as SentinelEntry::exit
// does (same order, same arguments) but leaves out the slot chain's exit and the error logging, so that an obligation
// about ONE handler (the circuit breaker's probe hook) stays within CBMC's reach; `se_exit_runs_handlers_then_chain`
// is the obligation on the real SentinelEntry::exit that ties the two together.
#[cfg(kani)]
pub(crate) mod verif_entry {
    use super::*;
    use crate::base::EntryContext;
    use crate::verif_support as vs;

    pub(crate) fn run_exit_handlers(e: &SentinelEntry) -> usize {
        let mut n = 0usize;
        for handler in &e.exit_handlers {
            let r = handler(e, e.ctx.clone());
            assert!(r.is_ok());
            std::mem::forget(r);
            n += 1;
        }
        n
    }

    static mut H1_SEQ: u32 = 0;
    static mut H2_SEQ: u32 = 0;
    static mut CHAIN_SEQ: u32 = 0;
    static mut CHAIN_CALLS: u32 = 0;
    // (closures that capture something: boxing a zero-sized fn item trips an internal error of the Kani 0.68 compiler)
    fn mk_handler(which: u8) -> ExitHandler {
        Box::new(move |_e: &SentinelEntry, c: ContextPtr| -> Result<()> {
            unsafe {
                if which == 1 {
                    assert!(H1_SEQ == 0);
                    H1_SEQ = vs::next_seq();
                } else {
                    assert!(H2_SEQ == 0);
                    H2_SEQ = vs::next_seq();
                }
            }
            std::mem::forget(c);
            Ok(())
        })
    }
    fn chain_exit_recorder(_sc: &SlotChain, _c: ContextPtr) {
        unsafe {
            CHAIN_CALLS += 1;
            CHAIN_SEQ = vs::next_seq();
        }
        std::mem::forget(_c);
    }

    /// SentinelEntry::exit: every handler registered with when_exit runs exactly once, in registration order, before the
    /// slot chain's exit, which runs exactly once (with 0, 1 or 2 handlers)
    #[kani::proof]
    #[kani::unwind(4)]
    #[kani::stub(crate::core::system_metric::get_total_memory_size, vs::any_total_memory)]
    #[kani::stub(std::backtrace::Backtrace::capture, std::backtrace::Backtrace::disabled)]
    #[kani::stub(anyhow::Error::msg, vs::no_error_expected)]
    #[kani::stub(SlotChain::exit, chain_exit_recorder)]
    fn se_exit_runs_handlers_then_chain() {
        let ctx = Arc::new(RwLock::new(crate::core::base::context::verif_ctx::mk_ctx("r", false, 1, 0, None)));
        std::mem::forget(ctx.clone());
        let sc = Arc::new(SlotChain::new());
        std::mem::forget(sc.clone());
        let mut e = SentinelEntry::new(ctx, sc);
        let n: u8 = kani::any();
        kani::assume(n <= 2);
        if n >= 1 {
            e.when_exit(mk_handler(1));
        }
        if n >= 2 {
            e.when_exit(mk_handler(2));
        }
        e.exit();
        unsafe {
            assert!(CHAIN_CALLS == 1);
            assert!((H1_SEQ != 0) == (n >= 1));
            assert!((H2_SEQ != 0) == (n >= 2));
            if n >= 1 {
                assert!(H1_SEQ < CHAIN_SEQ);
            }
            if n >= 2 {
                assert!(H1_SEQ < H2_SEQ && H2_SEQ < CHAIN_SEQ);
            }
        }
        std::mem::forget(e);
        kani::cover!(n == 2);
        kani::cover!(n == 0);
    }
}
