//@target core/system/rule.rs
// C12/C09: system Rule::is_valid: threshold >= 0 (NaN slips through: noted), CPU usage in [0,100], load in [0,1]
#[cfg(kani)]
pub(crate) mod verif_sr {
    use super::*;
    use crate::verif_support as vs;
    #[kani::proof]
    #[kani::unwind(3)]
    #[kani::stub(crate::core::system_metric::get_total_memory_size, vs::any_total_memory)]
    #[kani::stub(std::backtrace::Backtrace::capture, std::backtrace::Backtrace::disabled)]
    #[kani::stub(anyhow::Error::msg, vs::error_iff_allowed)]
    fn sr_is_valid() {
        let k: u8 = kani::any();
        kani::assume(k < 5);
        let metric_type = match k {
            0 => MetricType::Load,
            1 => MetricType::AvgRT,
            2 => MetricType::Concurrency,
            3 => MetricType::InboundQPS,
            _ => MetricType::CpuUsage,
        };
        let r = Rule { id: String::new(), metric_type, threshold: kani::any(), strategy: if kani::any() { AdaptiveStrategy::BBR } else { AdaptiveStrategy::NoAdaptive } };
        let t = r.threshold;
        let mut valid = !(t < 0.0);
        if metric_type == MetricType::CpuUsage && t > 100.0 {
            valid = false;
        }
        if metric_type == MetricType::Load && t > 1.0 {
            valid = false;
        }
        vs::allow_err(!valid);
        kani::cover!(valid && metric_type == MetricType::CpuUsage && t == 100.0);
        kani::cover!(valid && metric_type == MetricType::Load && t == 1.0);
        let res = r.is_valid();
        assert!(res.is_ok() && valid);
    }
}
