//@target core/flow/slot.rs
// C01/C07/C12: the flow rule-check slot. `get_traffic_controller_list_for` (global HashMap) is replaced by a stub that
// hands back the harness's controllers. Controller::perform_checking is replaced by its (assumed) contract - it returns
// the verdict of the controller's checker for the given node and batch - because Kani cannot execute
// Arc<Mutex<dyn Checker>> (see flow_default.rs); the stub hands out a symbolic verdict per controller and records calls.
#[cfg(kani)]
pub(crate) mod verif_fs {
    use super::*;
    use crate::base::{BlockType, SentinelInput};
    use crate::core::flow::traffic_shaping::default::verif_fd::mk_rule;
    use crate::verif_support as vs;

    static mut TCS: Option<Vec<Arc<Controller>>> = None;
    fn stub_controller_list(_name: &String) -> Vec<Arc<Controller>> {
        unsafe {
            match &*std::ptr::addr_of!(TCS) {
                Some(v) => v.clone(),
                None => Vec::new(),
            }
        }
    }

    // ghost per controller (tag = rule.stat_interval_ms in 0..3): verdict 0 Pass / 1 Blocked(Other(tag+1)) / 2 Wait(w)
    static mut VERDICT: (u8, u8, u8) = (0, 0, 0);
    static mut WAIT: (u64, u64, u64) = (0, 0, 0);
    static mut CALLS: (u32, u32, u32) = (0, 0, 0);
    static mut SEQ: (u32, u32, u32) = (0, 0, 0);
    static mut BATCH: (u32, u32, u32) = (0, 0, 0);
    static mut HAD_NODE: bool = true;
    /// assumed contract of Controller::perform_checking
    fn contract_perform_checking(s: &Controller, res_stat: Arc<dyn StatNode>, batch_count: u32, _flag: i32) -> TokenResult {
        let tag = s.rule().stat_interval_ms;
        let _ = res_stat;
        unsafe {
            let (v, w) = match tag {
                0 => {
                    CALLS.0 += 1;
                    SEQ.0 = vs::next_seq();
                    BATCH.0 = batch_count;
                    (VERDICT.0, WAIT.0)
                }
                1 => {
                    CALLS.1 += 1;
                    SEQ.1 = vs::next_seq();
                    BATCH.1 = batch_count;
                    (VERDICT.1, WAIT.1)
                }
                _ => {
                    CALLS.2 += 1;
                    SEQ.2 = vs::next_seq();
                    BATCH.2 = batch_count;
                    (VERDICT.2, WAIT.2)
                }
            };
            match v {
                0 => TokenResult::new_pass(),
                1 => TokenResult::new_blocked(BlockType::Other(tag as u8 + 1)),
                _ => TokenResult::new_should_wait(w),
            }
        }
    }
    fn ghost(i: usize) -> (u8, u64, u32, u32, u32) {
        unsafe {
            match i {
                0 => (VERDICT.0, WAIT.0, CALLS.0, SEQ.0, BATCH.0),
                1 => (VERDICT.1, WAIT.1, CALLS.1, SEQ.1, BATCH.1),
                _ => (VERDICT.2, WAIT.2, CALLS.2, SEQ.2, BATCH.2),
            }
        }
    }
    fn any_verdicts() {
        let v: (u8, u8, u8) = kani::any();
        kani::assume(v.0 <= 2 && v.1 <= 2 && v.2 <= 2);
        unsafe {
            VERDICT = v;
            WAIT = kani::any();
            CALLS = (0, 0, 0);
            SEQ = (0, 0, 0);
            BATCH = (0, 0, 0);
        }
    }
    fn same_verdict(r: &TokenResult, i: usize) -> bool {
        let (v, w, _, _, _) = ghost(i);
        match r {
            TokenResult::Pass => v == 0,
            TokenResult::Blocked(e) => v == 1 && e.block_type() == BlockType::Other(i as u8 + 1),
            TokenResult::Wait(x) => v == 2 && *x == w,
        }
    }
    fn mk_ctl(tag: u32, relation: RelationStrategy) -> Arc<Controller> {
        let mut rule = mk_rule(1.0, CalculateStrategy::Direct, ControlStrategy::Reject);
        rule.stat_interval_ms = tag;
        rule.relation_strategy = relation;
        let node = Arc::new(vs::RecNode::new());
        let tc = Arc::new(Controller::new(Arc::new(rule), Arc::new(StandaloneStat::new(true, node, None))));
        // keep one strong reference alive for ever: no reference count reaches zero inside an obligation, so CBMC never
        // has to resolve the drop-in-place slot of a trait-object vtable (it over-approximates that slot with every drop
        // glue of the program, which exhausts memory; measured)
        std::mem::forget(tc.clone());
        tc
    }
    fn leaked_node() -> Arc<dyn StatNode> {
        let n: Arc<dyn StatNode> = Arc::new(vs::RecNode::new());
        std::mem::forget(n.clone());
        n
    }

    /// RelationStrategy::Current never looks at another resource's node (also keeps the global node map out of the formula)
    fn no_node_lookup_expected(_name: &String) -> Option<Arc<crate::core::stat::ResourceNode>> {
        kani::assert(false, "RelationStrategy::Current must not look up another resource's node");
        None
    }

    /// can_pass_check, RelationStrategy::Current: with a node the controller's verdict is returned unchanged and the
    /// controller is consulted exactly once with the caller's batch; without a node the request passes, nothing consulted.
    #[kani::proof]
    #[kani::unwind(2)]
    #[kani::stub(crate::core::system_metric::get_total_memory_size, vs::any_total_memory)]
    #[kani::stub(std::backtrace::Backtrace::capture, std::backtrace::Backtrace::disabled)]
    #[kani::stub(anyhow::Error::msg, vs::no_error_expected)]
    #[kani::stub(Controller::perform_checking, contract_perform_checking)]
    #[kani::stub(crate::core::stat::node_storage::get_resource_node, no_node_lookup_expected)]
    fn fs_can_pass_check_current() {
        any_verdicts();
        let tc = mk_ctl(0, RelationStrategy::Current);
        let batch: u32 = kani::any();
        let with_node: bool = kani::any();
        let node: Option<Arc<dyn StatNode>> = if with_node { Some(leaked_node()) } else { None };
        let r = can_pass_check(tc, node, batch);
        let (_, _, calls, _, b) = ghost(0);
        if with_node {
            assert!(same_verdict(&r, 0));
            assert!(calls == 1 && b == batch);
        } else {
            assert!(r.is_pass());
            assert!(calls == 0);
        }
        kani::cover!(with_node && ghost(0).0 == 1);
        kani::cover!(!with_node);
    }

    /// Slot::check over N controllers: blocked iff some controller blocks; the error is the verdict of the FIRST blocking
    /// controller (membership is what the property demands); every controller before it was consulted exactly once, in
    /// list order, with the caller's batch; none after it; every Wait(w) verdict met on the way is slept exactly w ns,
    /// once; ctx.result() equals the returned value.
    fn check_slot<const N: usize>() {
        any_verdicts();
        let mut v: Vec<Arc<Controller>> = Vec::with_capacity(N);
        for i in 0..N {
            v.push(mk_ctl(i as u32, RelationStrategy::Current));
        }
        unsafe {
            TCS = Some(v);
            vs::SLEEP_CALLS = 0;
            vs::SLEEP_TOTAL_NS = 0;
        }
        let batch: u32 = kani::any();
        let mut ctx = EntryContext::new();
        ctx.set_input(SentinelInput::new(batch, 0));
        ctx.set_stat_node(leaked_node());
        let r = Slot {}.check(&mut ctx);
        // reference walk
        let mut first_block: Option<usize> = None;
        let mut sleeps: u32 = 0;
        let mut slept: u128 = 0;
        for i in 0..N {
            if first_block.is_none() {
                let (vd, w, _, _, _) = ghost(i);
                if vd == 1 {
                    first_block = Some(i);
                } else if vd == 2 {
                    sleeps += 1;
                    slept += w as u128;
                }
            }
        }
        let mut prev_seq = 0u32;
        for i in 0..N {
            let (_, _, calls, seq, b) = ghost(i);
            let consulted = match first_block {
                Some(fb) => i <= fb,
                None => true,
            };
            assert!(calls == consulted as u32);
            if consulted {
                assert!(b == batch);
                assert!(seq > prev_seq); // list order
                prev_seq = seq;
            }
        }
        match first_block {
            Some(fb) => {
                assert!(r.is_blocked() && same_verdict(&r, fb));
                assert!(ctx.result().is_blocked() && same_verdict(ctx.result(), fb));
            }
            None => {
                assert!(r.is_pass());
                assert!(ctx.result().is_pass());
            }
        }
        unsafe {
            assert!(vs::SLEEP_CALLS == sleeps);
            assert!(vs::SLEEP_TOTAL_NS == slept);
        }
        std::mem::forget(ctx); // see verif_support::NOTE_NO_CTX_DROP
        kani::cover!(first_block.is_some() && sleeps > 0);
        kani::cover!(first_block.is_none() && sleeps == N as u32);
        kani::cover!(first_block == Some(N - 1));
    }

    macro_rules! slot_harness {
        ($name:ident, $n:expr, $unw:expr) => {
            #[kani::proof]
            #[kani::unwind($unw)]
            #[kani::stub(crate::core::system_metric::get_total_memory_size, vs::any_total_memory)]
            #[kani::stub(std::backtrace::Backtrace::capture, std::backtrace::Backtrace::disabled)]
            #[kani::stub(anyhow::Error::msg, vs::no_error_expected)]
            #[kani::stub(crate::utils::time::format_time_nanos_curr, vs::empty_string)]
            #[kani::stub(crate::utils::time::curr_time_millis, vs::clock_ms)]
            #[kani::stub(crate::utils::time::sleep_for_ns, vs::sleep_ns_recorder)]
            #[kani::stub(crate::core::flow::rule_manager::get_traffic_controller_list_for, stub_controller_list)]
            #[kani::stub(Controller::perform_checking, contract_perform_checking)]
                    fn $name() {
                check_slot::<$n>();
            }
        };
    }
    slot_harness!(fs_slot_check_1, 1, 3);
    slot_harness!(fs_slot_check_2, 2, 4);
    slot_harness!(fs_slot_check_3, 3, 5);

    /// C12 / C01: RelationStrategy::Associated must not panic for a rule accepted by is_valid (ref_resource non-empty),
    /// whether or not the referenced resource has been seen: seen => the controller is checked against the REFERENCED
    /// resource's node and its verdict returned; never seen => there is no node, the request passes.
    #[kani::proof]
    #[kani::unwind(7)]
    #[kani::stub(crate::core::system_metric::get_total_memory_size, vs::any_total_memory)]
    #[kani::stub(std::backtrace::Backtrace::capture, std::backtrace::Backtrace::disabled)]
    #[kani::stub(anyhow::Error::msg, vs::no_error_expected)]
    #[kani::stub(crate::core::config::global_stat_sample_count_total, cfg_two)]
    #[kani::stub(crate::core::config::global_stat_interval_ms_total, cfg_1024)]
    #[kani::stub(crate::core::config::metric_stat_sample_count, cfg_two)]
    #[kani::stub(crate::core::config::metric_stat_interval_ms, cfg_1024)]
    #[kani::stub(crate::core::stat::node_storage::get_resource_node, stub_get_resource_node)]
    #[kani::stub(Controller::perform_checking, contract_perform_checking)]
    fn fs_can_pass_check_associated() {
        any_verdicts();
        let tc = mk_ctl(0, RelationStrategy::Associated);
        let seen: bool = kani::any();
        unsafe { REF_SEEN = seen };
        let batch: u32 = kani::any();
        let given: Option<Arc<dyn StatNode>> = if kani::any() { Some(leaked_node()) } else { None };
        let r = can_pass_check(tc, given, batch);
        let (_, _, calls, _, b) = ghost(0);
        if seen {
            assert!(same_verdict(&r, 0));
            assert!(calls == 1 && b == batch);
        } else {
            assert!(r.is_pass());
            assert!(calls == 0);
        }
        kani::cover!(seen && ghost(0).0 == 1);
        kani::cover!(!seen);
    }
    static mut REF_SEEN: bool = false;
    fn cfg_two() -> u32 {
        2
    }
    fn cfg_1024() -> u32 {
        1024
    }
    /// contract of node_storage::get_resource_node: Some(node) iff the resource has been seen
    fn stub_get_resource_node(_name: &String) -> Option<Arc<crate::core::stat::ResourceNode>> {
        if unsafe { REF_SEEN } {
            let n = Arc::new(crate::core::stat::ResourceNode::new(String::new(), crate::base::ResourceType::Common));
            std::mem::forget(n.clone());
            Some(n)
        } else {
            None
        }
    }
}
