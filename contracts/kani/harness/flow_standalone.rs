//@target core/flow/standalone_stat_slot.rs
// C01: admitted tokens are recorded into every private (non-reused) window exactly once, and never into
// controllers that reuse the resource's global window (those are fed by ResourceNodeStatSlot, C04).
#[cfg(kani)]
pub(crate) mod verif_fss {
    use super::*;
    use crate::base::SentinelInput;
    use crate::core::flow::traffic_shaping::default::verif_fd::mk_rule;
    use crate::verif_support as vs;
    use std::sync::atomic::Ordering::SeqCst;

    static mut TCS: Option<Vec<Arc<Controller>>> = None;
    fn stub_controller_list(_name: &String) -> Vec<Arc<Controller>> {
        unsafe {
            match &*std::ptr::addr_of!(TCS) {
                Some(v) => v.clone(),
                None => Vec::new(),
            }
        }
    }

    fn check<const N: usize>() {
        let mut reuse = [false; N];
        let mut nodes: Vec<Arc<vs::RecNode>> = Vec::with_capacity(N);
        let mut v: Vec<Arc<Controller>> = Vec::with_capacity(N);
        for i in 0..N {
            reuse[i] = kani::any();
            let w = Arc::new(vs::RecNode::new());
            let stat = if reuse[i] {
                Arc::new(StandaloneStat::new(true, w.clone(), None))
            } else {
                Arc::new(StandaloneStat::new(false, w.clone(), Some(w.clone())))
            };
            let rule = Arc::new(mk_rule(1.0, CalculateStrategy::Direct, ControlStrategy::Reject));
            v.push(Arc::new(Controller::new(rule, stat)));
            nodes.push(w);
        }
        unsafe { TCS = Some(v) };
        let batch: u32 = kani::any();
        let mut ctx = EntryContext::new();
        ctx.set_input(SentinelInput::new(batch, 0));
        StandaloneStatSlot {}.on_entry_pass(&ctx);
        for i in 0..N {
            let w = &nodes[i];
            if reuse[i] {
                assert!(w.writes() == 0);
            } else {
                assert!(w.add_calls[0].load(SeqCst) == 1 && w.add_total[0].load(SeqCst) == batch as u64);
                assert!(w.writes() == 1); // nothing but Pass
            }
            assert!(w.reads.load(SeqCst) == 0);
        }
        std::mem::forget(ctx);
        kani::cover!(reuse[0] && !reuse[N - 1] && batch > 1);
    }

    macro_rules! h {
        ($name:ident, $n:expr, $unw:expr) => {
            #[kani::proof]
            #[kani::unwind($unw)]
            #[kani::stub(crate::core::system_metric::get_total_memory_size, vs::any_total_memory)]
            #[kani::stub(std::backtrace::Backtrace::capture, std::backtrace::Backtrace::disabled)]
            #[kani::stub(anyhow::Error::msg, vs::no_error_expected)]
            #[kani::stub(crate::utils::time::format_time_nanos_curr, vs::empty_string)]
            #[kani::stub(crate::utils::time::curr_time_millis, vs::clock_ms)]
            #[kani::stub(crate::core::flow::rule_manager::get_traffic_controller_list_for, stub_controller_list)]
            fn $name() {
                check::<$n>();
            }
        };
    }
    h!(fss_on_entry_pass_2, 2, 4);
    h!(fss_on_entry_pass_3, 3, 5);

    /// blocked entries and completions never touch the private windows
    #[kani::proof]
    #[kani::unwind(3)]
    #[kani::stub(crate::core::system_metric::get_total_memory_size, vs::any_total_memory)]
    #[kani::stub(std::backtrace::Backtrace::capture, std::backtrace::Backtrace::disabled)]
    #[kani::stub(anyhow::Error::msg, vs::no_error_expected)]
    #[kani::stub(crate::utils::time::format_time_nanos_curr, vs::empty_string)]
    #[kani::stub(crate::utils::time::curr_time_millis, vs::clock_ms)]
    #[kani::stub(crate::core::flow::rule_manager::get_traffic_controller_list_for, stub_controller_list)]
    fn fss_blocked_and_completed_record_nothing() {
        let w = Arc::new(vs::RecNode::new());
        let stat = Arc::new(StandaloneStat::new(false, w.clone(), Some(w.clone())));
        let rule = Arc::new(mk_rule(1.0, CalculateStrategy::Direct, ControlStrategy::Reject));
        unsafe { TCS = Some(vec![Arc::new(Controller::new(rule, stat))]) };
        let mut ctx = EntryContext::new();
        ctx.set_input(SentinelInput::new(kani::any(), 0));
        StandaloneStatSlot {}.on_entry_blocked(&ctx, BlockError::new(crate::base::BlockType::Flow));
        StandaloneStatSlot {}.on_completed(&mut ctx);
        assert!(w.writes() == 0);
        std::mem::forget(ctx);
        kani::cover!(true);
    }
}
