//@target core/stat/resource_node.rs
// C04/C17: ResourceNode's in-flight counter and constructor (config getters replaced by a listed accepted geometry).
#[cfg(kani)]
pub(crate) mod verif_rn {
    use super::*;
    use crate::base::ResourceType;
    use crate::verif_support as vs;

    fn cfg_two() -> u32 {
        2
    }
    fn cfg_one() -> u32 {
        1
    }
    fn cfg_1024() -> u32 {
        1024
    }
    fn cfg_512() -> u32 {
        512
    }
    static mut UPD_CALLS: u32 = 0;
    static mut UPD_LAST: u32 = 0;
    fn stub_update_concurrency(_s: &BucketLeapArray, c: u32) {
        unsafe {
            UPD_CALLS += 1;
            UPD_LAST = c;
        }
    }

    macro_rules! rn_harness {
        ($name:ident, $sc:path, $im:path, $body:expr) => {
            #[kani::proof]
            #[kani::unwind(7)]
            #[kani::stub(crate::core::system_metric::get_total_memory_size, vs::any_total_memory)]
            #[kani::stub(std::backtrace::Backtrace::capture, std::backtrace::Backtrace::disabled)]
            #[kani::stub(anyhow::Error::msg, vs::no_error_expected)]
            #[kani::stub(crate::core::config::global_stat_sample_count_total, cfg_two)]
            #[kani::stub(crate::core::config::global_stat_interval_ms_total, cfg_1024)]
            #[kani::stub(crate::core::config::metric_stat_sample_count, $sc)]
            #[kani::stub(crate::core::config::metric_stat_interval_ms, $im)]
            #[kani::stub(crate::utils::time::curr_time_millis, vs::clock_ms)]
            fn $name() {
                $body
            }
        };
    }

    // ResourceNode::new under an accepted configuration: no panic; array and default metric carry exactly the configured geometry
    rn_harness!(rn_new_geometry_full, cfg_two, cfg_1024, {
        let n = ResourceNode::new(String::new(), ResourceType::Common);
        assert!(n.arr.sample_count() == 2 && n.arr.interval_ms() == 1024 && n.arr.bucket_len_ms() == 512);
        assert!(n.metric.sample_count() == 2 && n.metric.interval_ms() == 1024 && n.metric.bucket_len_ms() == 512);
        assert!(n.sample_count == 2 && n.interval_ms == 1024);
        assert!(n.current_concurrency() == 0);
        kani::cover!(true);
    });
    rn_harness!(rn_new_geometry_narrow, cfg_one, cfg_512, {
        let n = ResourceNode::new(String::new(), ResourceType::Common);
        assert!(n.arr.sample_count() == 2 && n.arr.interval_ms() == 1024);
        assert!(n.metric.sample_count() == 1 && n.metric.interval_ms() == 512 && n.metric.bucket_len_ms() == 512);
        kani::cover!(true);
    });

    // in-flight counter: increase = +1 and reports the new value to the array once; decrease = -1; current reads it
    rn_harness!(rn_concurrency_counter, cfg_two, cfg_1024, {
        let n = ResourceNode::new(String::new(), ResourceType::Common);
        let c0: u32 = kani::any();
        kani::assume(c0 >= 1 && c0 < u32::MAX);
        n.concurrency.store(c0, Ordering::SeqCst);
        vs::set_clock_ms(1u64 << 40);
        assert!(n.current_concurrency() == c0);
        n.increase_concurrency();
        assert!(n.current_concurrency() == c0 + 1);
        n.decrease_concurrency();
        n.decrease_concurrency();
        assert!(n.current_concurrency() == c0 - 1);
        kani::cover!(c0 > 5);
    });
}
