//@target core/flow/traffic_shaping/default.rs
// C01: the reject decision of a direct/reject flow rule, against the ReadStat seam.
// Note: the checker is exercised as a concrete RejectChecker whose owner is a real Controller. The route through
// Controller::perform_checking goes through Arc<Mutex<dyn Checker>>; Kani 0.68 mis-computes the offset of the unsized
// tail of Mutex<dyn Trait> (spurious "misaligned pointer to reference cast" in MutexGuard::deref, measured), so
// perform_checking itself cannot be put under contract here and is an assumed contract for its callers.
#[cfg(kani)]
pub(crate) mod verif_fd {
    use super::*;
    use crate::base::SentinelRule;
    use crate::flow::{CalculateStrategy, ControlStrategy, RelationStrategy, StandaloneStat};
    use crate::verif_support as vs;
    use std::sync::atomic::Ordering::SeqCst;

    pub(crate) fn mk_rule(threshold: f64, calc: CalculateStrategy, ctl: ControlStrategy) -> Rule {
        Rule {
            id: String::new(),
            resource: String::new(),
            ref_resource: String::new(),
            calculate_strategy: calc,
            control_strategy: ctl,
            relation_strategy: RelationStrategy::Current,
            threshold,
            warm_up_period_sec: 0,
            warm_up_cold_factor: 0,
            max_queueing_time_ms: 0,
            stat_interval_ms: 0,
            low_mem_usage_threshold: 0,
            high_mem_usage_threshold: 0,
            mem_low_water_mark: 0,
            mem_high_water_mark: 0,
        }
    }

    /// DirectCalculator::calculate_allowed_threshold returns the rule's threshold bit-for-bit, whatever batch/flag
    #[kani::proof]
    #[kani::unwind(2)]
    #[kani::stub(crate::core::system_metric::get_total_memory_size, vs::any_total_memory)]
    #[kani::stub(std::backtrace::Backtrace::capture, std::backtrace::Backtrace::disabled)]
    #[kani::stub(anyhow::Error::msg, vs::no_error_expected)]
    fn fd_direct_calculator_returns_rule_threshold() {
        let t: f64 = kani::any();
        let rule = Arc::new(mk_rule(t, CalculateStrategy::Direct, ControlStrategy::Reject));
        let c = DirectCalculator::new(Weak::new(), rule);
        let r = c.calculate_allowed_threshold(kani::any(), kani::any());
        assert!(r.to_bits() == t.to_bits());
        kani::cover!(t > 0.5 && t < 1.5);
    }

    /// RejectChecker::do_check: Pass <=> (admitted-in-window + batch) as f64 <= the threshold it is given; otherwise
    /// Blocked(Flow) carrying this rule and the observed count; reads Pass of the owner's read-only metric; writes nothing.
    #[kani::proof]
    #[kani::unwind(2)]
    #[kani::stub(crate::core::system_metric::get_total_memory_size, vs::any_total_memory)]
    #[kani::stub(std::backtrace::Backtrace::capture, std::backtrace::Backtrace::disabled)]
    #[kani::stub(anyhow::Error::msg, vs::no_error_expected)]
    fn fd_reject_checker_do_check() {
        let w: u64 = kani::any();
        kani::assume(w < (1u64 << 52));
        let batch: u32 = kani::any();
        let threshold: f64 = kani::any();
        kani::assume(threshold >= 0.0 && threshold <= 1.0e15);
        let rule_threshold: f64 = kani::any(); // the checker must use the threshold it is GIVEN, not the rule's
        let node = Arc::new(vs::RecNode::new());
        node.sum[0].store(w, SeqCst);
        // decoys: any other event's sum must not influence the decision
        node.sum[1].store(kani::any(), SeqCst);
        node.sum[2].store(kani::any(), SeqCst);
        let rule = Arc::new(mk_rule(rule_threshold, CalculateStrategy::Direct, ControlStrategy::Reject));
        let stat = Arc::new(StandaloneStat::new(true, node.clone(), None));
        let tsc = Arc::new(Controller::new(rule.clone(), stat));
        let chk = RejectChecker::new(Arc::downgrade(&tsc), rule.clone());
        let r = chk.do_check(None, batch, threshold);
        let fits = (w as f64) + (batch as f64) <= threshold;
        match &r {
            TokenResult::Pass => assert!(fits),
            TokenResult::Blocked(e) => {
                assert!(!fits);
                assert!(e.block_type() == BlockType::Flow);
                let tr = e.triggered_rule().unwrap();
                let rule_dyn: Arc<dyn SentinelRule> = rule.clone();
                assert!(Arc::ptr_eq(&tr, &rule_dyn));
                assert!(e.triggered_value().is_some());
            }
            TokenResult::Wait(_) => assert!(false, "reject checker never queues"),
        }
        assert!(node.writes() == 0);
        kani::cover!(fits && batch > 0 && w > 0);
        kani::cover!(!fits && w as f64 <= threshold); // blocked only because of the batch
        kani::cover!(fits && (w as f64) + (batch as f64) == threshold); // exactly at the threshold is admitted
    }
}
