//@target core/hotspot/cache.rs
// An exact, HashMap-free CounterTrait instance for the hotspot obligations (the real Counter is an lru::LruCache over
// std HashMap, out of CBMC's reach). It behaves as a map for up to two distinct keys; a third key while both slots are
// in use is outside the obligations' domain ("the number of distinct values stays within the rule's capacity") and is
// flagged. Keys are compared through their Hash stream (String/&str hash = bytes + 0xff), exact for keys <= 15 bytes.
#[cfg(kani)]
pub(crate) mod verif_hc {
    use super::*;

    /// key identity = (length, first byte) packed into a u64 (0 = free slot). Exact for the one-character keys the
    /// obligations use; comparing through Hash or memcmp made CBMC unwind byte loops and time out (measured).
    fn kid(s: &str) -> u64 {
        let b = s.as_bytes();
        if b.is_empty() { 1 } else { ((b.len() as u64) << 8 | b[0] as u64) + 1 }
    }
    /// With K = String the only `Q` that satisfies `KeyRef<String>: Borrow<Q>` in lru 0.7 is `String` itself.
    fn kid_q<Q: ?Sized>(q: &Q) -> u64 {
        let s: &String = unsafe { &*(q as *const Q as *const String) };
        kid(s.as_str())
    }

    #[derive(Debug)]
    pub(crate) struct MapCounter {
        pub cap: usize,
        pub k0: AtomicU64,
        pub k1: AtomicU64,
        pub v0: Arc<AtomicU64>,
        pub v1: Arc<AtomicU64>,
    }
    impl Default for MapCounter {
        fn default() -> Self {
            Self::with_capacity(0)
        }
    }
    impl MapCounter {
        /// harness-only: pre-load a key with a value
        pub(crate) fn preload(&self, key: &str, value: u64) {
            let f = kid(key);
            if self.k0.load(Ordering::SeqCst) == 0 {
                self.k0.store(f, Ordering::SeqCst);
                self.v0.store(value, Ordering::SeqCst);
            } else {
                assert!(self.k1.load(Ordering::SeqCst) == 0);
                self.k1.store(f, Ordering::SeqCst);
                self.v1.store(value, Ordering::SeqCst);
            }
        }
        /// harness-only: current value of a key
        pub(crate) fn peek(&self, key: &str) -> Option<u64> {
            self.find(kid(key)).map(|v| v.load(Ordering::SeqCst))
        }
        fn find(&self, f: u64) -> Option<Arc<AtomicU64>> {
            if self.k0.load(Ordering::SeqCst) == f {
                return Some(self.v0.clone());
            }
            if self.k1.load(Ordering::SeqCst) == f {
                return Some(self.v1.clone());
            }
            None
        }
    }
    impl CounterTrait<ParamKey> for MapCounter {
        fn with_capacity(cap: usize) -> Self {
            let v0 = Arc::new(AtomicU64::new(0));
            let v1 = Arc::new(AtomicU64::new(0));
            std::mem::forget(v0.clone());
            std::mem::forget(v1.clone());
            MapCounter { cap, k0: AtomicU64::new(0), k1: AtomicU64::new(0), v0, v1 }
        }
        fn cap(&self) -> usize {
            self.cap
        }
        fn add(&self, key: ParamKey, value: u64) {
            if let Some(v) = self.add_if_absent(key, value) {
                v.store(value, Ordering::SeqCst)
            }
        }
        fn add_if_absent(&self, key: ParamKey, value: u64) -> Option<Arc<AtomicU64>> {
            let f = kid(key.as_str());
            std::mem::forget(key); // keys are never dropped inside an obligation
            if let Some(v) = self.find(f) {
                return Some(v);
            }
            if self.k0.load(Ordering::SeqCst) == 0 {
                self.k0.store(f, Ordering::SeqCst);
                self.v0.store(value, Ordering::SeqCst);
                return None;
            }
            kani::assert(self.k1.load(Ordering::SeqCst) == 0, "more distinct keys than the harness map holds (outside the obligation's domain)");
            self.k1.store(f, Ordering::SeqCst);
            self.v1.store(value, Ordering::SeqCst);
            None
        }
        fn get<Q>(&self, key: &Q) -> Option<Arc<AtomicU64>>
        where
            KeyRef<ParamKey>: Borrow<Q>,
            Q: Hash + Eq + ?Sized,
        {
            self.find(kid_q(key))
        }
        fn remove<Q>(&self, key: &Q) -> bool
        where
            KeyRef<ParamKey>: Borrow<Q>,
            Q: Hash + Eq + ?Sized,
        {
            let f = kid_q(key);
            if self.k0.load(Ordering::SeqCst) == f {
                self.k0.store(0, Ordering::SeqCst);
                return true;
            }
            if self.k1.load(Ordering::SeqCst) == f {
                self.k1.store(0, Ordering::SeqCst);
                return true;
            }
            false
        }
        fn contains<Q>(&self, key: &Q) -> bool
        where
            KeyRef<ParamKey>: Borrow<Q>,
            Q: Hash + Eq + ?Sized,
        {
            self.find(kid_q(key)).is_some()
        }
        fn keys(&self) -> Vec<ParamKey> {
            Vec::new()
        }
        fn len(&self) -> usize {
            (self.k0.load(Ordering::SeqCst) != 0) as usize + (self.k1.load(Ordering::SeqCst) != 0) as usize
        }
        fn is_empty(&self) -> bool {
            self.len() == 0
        }
        fn purge(&self) {
            self.k0.store(0, Ordering::SeqCst);
            self.k1.store(0, Ordering::SeqCst);
        }
    }

    /// the harness map is a map: insert / lookup / no cross-talk between two keys
    #[kani::proof]
    #[kani::unwind(3)]
    #[kani::stub(crate::core::system_metric::get_total_memory_size, crate::verif_support::any_total_memory)]
    #[kani::stub(std::backtrace::Backtrace::capture, std::backtrace::Backtrace::disabled)]
    fn hc_map_counter_is_a_map() {
        let m = MapCounter::with_capacity(2);
        let va: u64 = kani::any();
        let vb: u64 = kani::any();
        assert!(m.add_if_absent(String::from("a"), va).is_none());
        assert!(m.add_if_absent(String::from("b"), vb).is_none());
        assert!(m.peek("a") == Some(va) && m.peek("b") == Some(vb));
        let again = m.add_if_absent(String::from("a"), kani::any());
        assert!(again.is_some() && again.unwrap().load(Ordering::SeqCst) == va);
        assert!(m.get(&String::from("b")).unwrap().load(Ordering::SeqCst) == vb);
        assert!(m.get(&String::from("c")).is_none() && m.len() == 2);
        std::mem::forget(m);
        kani::cover!(va != vb);
    }
}
