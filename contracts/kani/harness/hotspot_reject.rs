//@target core/hotspot/traffic_shaping/reject.rs
// C06: the hotspot QPS reject checker is a per-value token bucket with no cross-talk (CounterTrait seam = exact 2-key map)
#[cfg(kani)]
pub(crate) mod verif_hr {
    use super::*;
    use crate::base::SentinelRule;
    use crate::core::hotspot::cache::verif_hc::MapCounter;
    use crate::verif_support as vs;
    use std::collections::HashMap;

    pub(crate) fn stub_random_state() -> std::collections::hash_map::RandomState {
        unsafe { std::mem::transmute::<[u64; 2], std::collections::hash_map::RandomState>([0, 0]) }
    }
    pub(crate) fn fmt_stub(_a: std::fmt::Arguments<'_>) -> String {
        String::with_capacity(0)
    }
    pub(crate) fn mk_rule(metric_type: MetricType, ctl: ControlStrategy, threshold: u64, burst: u64, d: u64, max_q: u64) -> Arc<Rule> {
        let r = Arc::new(Rule {
            id: String::with_capacity(0),
            resource: String::from("r"),
            metric_type,
            control_strategy: ctl,
            param_index: 0,
            param_key: String::with_capacity(0),
            threshold,
            max_queueing_time_ms: max_q,
            burst_count: burst,
            duration_in_sec: d,
            params_max_capacity: 2,
            specific_items: HashMap::new(), // per-value overrides: only the empty table is within reach (std HashMap)
        });
        std::mem::forget(r.clone());
        r
    }

    /// Per-call relation of the token bucket (taken from the statement; the Verus unit token_bucket proves that this
    /// relation preserves  admitted*D <= (q+b)*D + q*(last-first)  for every history):
    ///  q == 0 or batch > q+b            => rejected, state unchanged
    ///  first sight of the value         => admitted, last = now, rest = q+b-batch
    ///  gap = now-last > D               => refill floor(gap*q/D) capped at q+b, then consume or (if insufficient) reject unchanged
    ///  otherwise                        => consume if rest >= batch, else reject unchanged
    /// and the OTHER value's two cells never change.
    fn check_do_check(d: u64) {
        let q: u64 = kani::any();
        let b: u64 = kani::any();
        kani::assume(q <= 1023 && b <= 1023);
        let batch: u32 = kani::any();
        let now: u64 = kani::any();
        kani::assume(now < (1u64 << 40));
        vs::set_clock_ms(now);
        let rule = mk_rule(MetricType::QPS, ControlStrategy::Reject, q, b, d, 0);
        let metric = Arc::new(ParamsMetric::<MapCounter> {
            rule_time_counter: MapCounter::with_capacity(2),
            rule_token_counter: MapCounter::with_capacity(2),
            concurrency_counter: MapCounter::with_capacity(0),
        });
        std::mem::forget(metric.clone());
        // other value "o": present with arbitrary cells
        let o_last: u64 = kani::any();
        let o_rest: u64 = kani::any();
        metric.rule_time_counter.preload("o", o_last);
        metric.rule_token_counter.preload("o", o_rest);
        // value under test "a": absent, or present with last <= now, rest <= q+b
        let present: bool = kani::any();
        let last: u64 = kani::any();
        let rest: u64 = kani::any();
        kani::assume(last <= now && now - last <= (1u64 << 21) && rest <= q + b); // gaps up to ~35 min
        if present {
            metric.rule_time_counter.preload("a", last);
            metric.rule_token_counter.preload("a", rest);
        }
        let ctl = Arc::new(Controller::<MapCounter>::new_with_metric(rule.clone(), metric.clone()));
        std::mem::forget(ctl.clone());
        let chk = RejectChecker::<MapCounter> { owner: Arc::downgrade(&ctl) };
        let r = chk.do_check(String::from("a"), batch);
        let n = batch as u64;
        let dd = d * 1000;
        let (pass, last2, rest2): (bool, Option<u64>, Option<u64>) = if q == 0 || n > q + b {
            (false, if present { Some(last) } else { None }, if present { Some(rest) } else { None })
        } else if !present {
            (true, Some(now), Some(q + b - n))
        } else if now - last > dd {
            let to_add = (now - last) * q / dd;
            let avail = if to_add + rest > q + b { q + b } else { to_add + rest };
            if avail < n { (false, Some(last), Some(rest)) } else { (true, Some(now), Some(avail - n)) }
        } else if rest >= n {
            (true, Some(last), Some(rest - n))
        } else {
            (false, Some(last), Some(rest))
        };
        assert!(r.is_pass() == pass && r.is_blocked() == !pass);
        assert!(metric.rule_time_counter.peek("a") == last2);
        assert!(metric.rule_token_counter.peek("a") == rest2);
        if !pass {
            let e = r.block_err().unwrap();
            assert!(e.block_type() == BlockType::HotSpotParamFlow);
            let want: Arc<dyn SentinelRule> = rule.clone();
            assert!(Arc::ptr_eq(&e.triggered_rule().unwrap(), &want));
        }
        // no cross-talk
        assert!(metric.rule_time_counter.peek("o") == Some(o_last) && metric.rule_token_counter.peek("o") == Some(o_rest));
        std::mem::forget(r);
        kani::cover!(present && now - last > dd && pass);
        kani::cover!(present && now - last == dd && !pass); // exactly D: no refill yet
        kani::cover!(present && now - last == dd + 1 && pass && rest < n); // D+1 ms: refilled
        kani::cover!(!present && pass);
        kani::cover!(q == 0);
    }
    macro_rules! h {
        ($name:ident, $d:expr) => {
            #[kani::proof]
            #[kani::unwind(3)]
            #[kani::stub(crate::core::system_metric::get_total_memory_size, vs::any_total_memory)]
            #[kani::stub(std::backtrace::Backtrace::capture, std::backtrace::Backtrace::disabled)]
            #[kani::stub(anyhow::Error::msg, vs::no_error_expected)]
            #[kani::stub(crate::utils::time::curr_time_millis, vs::clock_ms)]
            #[kani::stub(std::collections::hash_map::RandomState::new, stub_random_state)]
            #[kani::stub(alloc::fmt::format, fmt_stub)]
            fn $name() {
                check_do_check($d);
            }
        };
    }
    h!(hr_do_check_d1, 1);
    h!(hr_do_check_d2, 2);
    h!(hr_do_check_d3, 3);
}
