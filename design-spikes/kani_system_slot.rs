// spike harness module appended to src/core/system/slot.rs in a scratch copy (design phase only)
#[cfg(kani)]
mod kani_spike {
    use super::*;
    use crate::stat::ResourceNode;

    static mut QPS: f64 = 0.0;
    static mut CONC: u32 = 0;
    static mut LOAD: f64 = 0.0;
    fn stub_qps(_s: &ResourceNode, _e: MetricEvent) -> f64 { unsafe { QPS } }
    fn stub_conc(_s: &ResourceNode) -> u32 { unsafe { CONC } }
    fn stub_load() -> f64 { unsafe { LOAD } }
    fn stub_cfg_u32() -> u32 { 20 }
    fn stub_cfg_iv() -> u32 { 10000 }
    fn stub_cfg_sc() -> u32 { 2 }
    fn stub_cfg_im() -> u32 { 1000 }
    fn stub_total_mem() -> u64 { kani::any() }

    #[kani::proof]
    #[kani::unwind(22)]
    #[kani::stub(<ResourceNode as ReadStat>::qps, stub_qps)]
    #[kani::stub(<ResourceNode as ConcurrencyStat>::current_concurrency, stub_conc)]
    #[kani::stub(crate::core::system_metric::current_load, stub_load)]
    #[kani::stub(crate::core::system_metric::get_total_memory_size, stub_total_mem)]
    #[kani::stub(crate::core::config::global_stat_sample_count_total, stub_cfg_u32)]
    #[kani::stub(crate::core::config::global_stat_interval_ms_total, stub_cfg_iv)]
    #[kani::stub(crate::core::config::metric_stat_sample_count, stub_cfg_sc)]
    #[kani::stub(crate::core::config::metric_stat_interval_ms, stub_cfg_im)]
    fn spike_system_qps() {
        let qps: f64 = kani::any();
        let thr: f64 = kani::any();
        kani::assume(qps >= 0.0 && qps <= 1.0e9);
        kani::assume(thr >= 0.0 && thr <= 1.0e9);
        unsafe { QPS = qps; }
        let rule = Arc::new(Rule { id: String::new(), metric_type: MetricType::InboundQPS, threshold: thr, strategy: AdaptiveStrategy::NoAdaptive });
        let (passed, _msg, snap) = can_pass_check(&rule);
        assert!(passed == !(qps >= thr));
        assert!(passed || snap.is_some());
    }
}
