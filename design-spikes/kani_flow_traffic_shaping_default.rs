// spike harness module appended to src/core/flow/traffic_shaping/default.rs in a scratch copy (design phase only)
#[cfg(kani)]
mod kani_spike {
    use super::*;
    use crate::base::{ReadStat, MetricEvent};
    use crate::flow::{StandaloneStat, ControlStrategy, CalculateStrategy, RelationStrategy};

    #[derive(Debug)]
    struct SymStat { pass: u64 }
    impl ReadStat for SymStat {
        fn sum(&self, _e: MetricEvent) -> u64 { self.pass }
    }

    fn mk_rule(threshold: f64) -> Arc<Rule> {
        Arc::new(Rule {
            id: String::new(),
            resource: String::new(),
            ref_resource: String::new(),
            calculate_strategy: CalculateStrategy::Direct,
            control_strategy: ControlStrategy::Reject,
            relation_strategy: RelationStrategy::Current,
            threshold,
            warm_up_period_sec: 0,
            warm_up_cold_factor: 0,
            max_queueing_time_ms: 0,
            stat_interval_ms: 0,
            low_mem_usage_threshold: 0,
            high_mem_usage_threshold: 0,
            mem_low_water_mark: 0,
            mem_high_water_mark: 0,
        })
    }

    #[kani::proof]
    #[kani::unwind(2)]
    fn spike_a() {
        let threshold: f64 = kani::any();
        let rule = mk_rule(threshold);
        assert!(rule.threshold.to_bits() == threshold.to_bits());
    }
    #[kani::proof]
    #[kani::unwind(2)]
    fn spike_b() {
        let pass: u64 = kani::any();
        let stat = Arc::new(StandaloneStat::new(true, Arc::new(SymStat { pass }), None));
        assert!(stat.read_only_metric().sum(MetricEvent::Pass) == pass);
    }
    #[kani::proof]
    #[kani::unwind(2)]
    fn spike_c() {
        let pass: u64 = kani::any();
        let rule = mk_rule(1.0);
        let stat = Arc::new(StandaloneStat::new(true, Arc::new(SymStat { pass }), None));
        let ctrl = Arc::new(Controller::new(rule.clone(), stat));
        let w = Arc::downgrade(&ctrl);
        assert!(w.upgrade().is_some());
    }
    fn stub_total_mem() -> u64 { kani::any() }
    #[kani::proof]
    #[kani::unwind(2)]
    #[kani::stub(crate::core::system_metric::get_total_memory_size, stub_total_mem)]
    #[kani::stub(std::backtrace::Backtrace::capture, std::backtrace::Backtrace::disabled)]
    fn spike_d() {
        let r = TokenResult::new_blocked_with_cause(
                BlockType::Flow,
                "flow reject check blocked".into(),
                mk_rule(1.0),
                Arc::new(1.0f64),
            );
        assert!(matches!(r, TokenResult::Blocked(_)));
    }
}
