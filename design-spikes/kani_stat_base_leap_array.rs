// spike harness module appended to src/core/stat/base/leap_array.rs in a scratch copy (design phase only).
// In-place contract attributes used with it:
//   BucketWrap::reset_start_stamp: #[cfg_attr(kani, kani::modifies(self.start_stamp.as_ptr()))] #[cfg_attr(kani, kani::ensures(|_r| self.start_stamp() == start_stamp))]
//   BucketWrap::is_deprecated:     #[cfg_attr(kani, kani::ensures(|r: &bool| *r == (now > self.start_stamp() && now - self.start_stamp() > interval)))]
#[cfg(kani)]
mod kani_spike {
    use super::*;
    use std::sync::atomic::AtomicU64;
    impl MetricTrait for AtomicU64 {
        fn reset(&self) {
            self.store(0, Ordering::SeqCst);
        }
    }

    #[kani::proof_for_contract(BucketWrap::is_deprecated)]
    fn contract_is_deprecated() {
        let b = BucketWrap::<AtomicU64>::new(kani::any());
        b.is_deprecated(kani::any(), kani::any());
    }

    #[kani::proof_for_contract(BucketWrap::reset_start_stamp)]
    fn contract_reset_start_stamp() {
        let b = BucketWrap::<AtomicU64>::new(kani::any());
        b.reset_start_stamp(kani::any());
    }

    fn stub_err_msg<M>(_m: M) -> crate::Error
    where M: std::fmt::Display + std::fmt::Debug + Send + Sync + 'static {
        kani::assert(false, "contract: no Err on this domain");
        kani::assume(false);
        loop {}
    }
    static mut G_KN: u64 = 0;
    fn stub_idx<T: MetricTrait>(_s: &LeapArray<T>, _now: u64) -> u64 { unsafe { G_KN % 2 } }
    fn stub_start<T: MetricTrait>(_s: &LeapArray<T>, _now: u64) -> u64 { unsafe { G_KN * 500 } }

    // symbolic ring state, concrete geometry 2 x 500ms
    #[kani::proof]
    #[kani::stub(anyhow::Error::msg, stub_err_msg)]
    #[kani::stub(LeapArray::time2idx, stub_idx)]
    #[kani::stub(LeapArray::calculate_start_stamp, stub_start)]
    #[kani::unwind(3)]
    #[kani::stub(std::backtrace::Backtrace::capture, std::backtrace::Backtrace::disabled)]
    fn step_get_bucket_of_time() {
        let arr = LeapArray::<AtomicU64> {
            bucket_len_ms: 500,
            sample_count: 2,
            interval_ms: 1000,
            array: vec![Arc::new(BucketWrap::default()), Arc::new(BucketWrap::default())],
            mutex: vec![Mutex::new(false), Mutex::new(false)],
        };
        let k0: u32 = kani::any();
        let k1: u32 = kani::any();
        let kn: u32 = kani::any();
        let off: u16 = kani::any();
        kani::assume(off < 500);
        kani::assume(kn >= 1 && kn < (1u32 << 30));
        // slot i holds 0 (never used) or the start of a bucket whose number is congruent to i, not in the future
        kani::assume(2 * (k0 as u64) <= kn as u64);
        kani::assume(2 * (k1 as u64) + 1 <= kn as u64);
        let s0: u64 = 2 * (k0 as u64) * 500;
        let s1: u64 = if kani::any() { 0 } else { (2 * (k1 as u64) + 1) * 500 };
        let v0: u64 = kani::any();
        let v1: u64 = kani::any();
        arr.array[0].reset_start_stamp(s0);
        arr.array[1].reset_start_stamp(s1);
        arr.array[0].value().store(v0, Ordering::SeqCst);
        arr.array[1].value().store(v1, Ordering::SeqCst);
        let ts: u64 = (kn as u64) * 500;
        unsafe { G_KN = kn as u64; }
        let now: u64 = ts + off as u64;
        let r = arr.get_bucket_of_time(now);
        let b = match r { Ok(b) => b, Err(_) => { assert!(false); return; } };
        let idx = (kn % 2) as usize;
        assert!(Arc::ptr_eq(&b, &arr.array[idx]));
        assert!(b.start_stamp() == ts);
        let (old_s, old_v) = if idx == 0 { (s0, v0) } else { (s1, v1) };
        if old_s == ts { assert!(b.value().load(Ordering::SeqCst) == old_v); }
        else if old_s != 0 { assert!(b.value().load(Ordering::SeqCst) == 0); }
        // frame: other slot untouched
        let o = 1 - idx;
        let (os, ov) = if o == 0 { (s0, v0) } else { (s1, v1) };
        assert!(arr.array[o].start_stamp() == os);
        assert!(arr.array[o].value().load(Ordering::SeqCst) == ov);
    }
}
