// spike harness module appended to src/core/circuitbreaker/breaker/error_count.rs in a scratch copy (design phase only)
#[cfg(kani)]
mod kani_spike {
    use super::*;
    use crate::stat::{BucketWrap, LeapArray};

    static mut NOW: u64 = 0;
    fn stub_now() -> u64 { unsafe { NOW } }

    static mut EV_OPEN: u32 = 0;
    static mut EV_CLOSED: u32 = 0;
    static mut EV_HALF: u32 = 0;
    static mut LAST_PREV: u8 = 9;
    struct Rec;
    fn code(s: State) -> u8 { match s { State::Closed => 0, State::HalfOpen => 1, State::Open => 2 } }
    impl StateChangeListener for Rec {
        fn on_transform_to_closed(&self, prev: State, _rule: Arc<Rule>) { unsafe { EV_CLOSED += 1; LAST_PREV = code(prev); } }
        fn on_transform_to_open(&self, prev: State, _rule: Arc<Rule>, _s: Option<Arc<Snapshot>>) { unsafe { EV_OPEN += 1; LAST_PREV = code(prev); } }
        fn on_transform_to_half_open(&self, prev: State, _rule: Arc<Rule>) { unsafe { EV_HALF += 1; LAST_PREV = code(prev); } }
    }

    #[kani::proof]
    #[kani::unwind(3)]
    #[kani::stub(crate::utils::time::curr_time_millis, stub_now)]
    #[kani::stub(std::backtrace::Backtrace::capture, std::backtrace::Backtrace::disabled)]
    fn step_error_count_complete() {
        let min_req: u64 = kani::any();
        let thr: u32 = kani::any();
        kani::assume(min_req <= 4);
        kani::assume(thr <= 4);
        let rule = Arc::new(Rule {
            id: String::new(),
            resource: String::new(),
            strategy: BreakerStrategy::ErrorCount,
            retry_timeout_ms: 3000,
            min_request_amount: min_req,
            stat_interval_ms: 1000,
            stat_sliding_window_bucket_count: 1,
            max_allowed_rt_ms: 0,
            threshold: thr as f64,
        });
        let stat: CounterLeapArray = LeapArray::<Counter>::new(1, 1000).unwrap();
        // symbolic pre-state of the single bucket
        let kn: u32 = kani::any();
        let off: u16 = kani::any();
        kani::assume(off < 1000 && kn >= 1 && kn < (1u32 << 20));
        let now = kn as u64 * 1000 + off as u64;
        unsafe { NOW = now; }
        let kb: u32 = kani::any();
        kani::assume(kb <= kn);
        let bs = kb as u64 * 1000;
        let t0: u64 = kani::any();
        let e0: u64 = kani::any();
        kani::assume(e0 <= t0 && t0 < 1000);
        stat.array[0].reset_start_stamp(bs);
        stat.array[0].value().total.store(t0, Ordering::SeqCst);
        stat.array[0].value().target.store(e0, Ordering::SeqCst);
        let b = ErrorCountBreaker::new_with_stat(rule, Arc::new(stat));
        let st: u8 = kani::any();
        kani::assume(st <= 2);
        let pre = match st { 0 => State::Closed, 1 => State::HalfOpen, _ => State::Open };
        b.set_state(pre);
        register_state_change_listeners(vec![Arc::new(Rec)]);
        let is_err: bool = kani::any();
        let err = if is_err { Some(Error::msg("e")) } else { None };
        b.on_request_complete(0, &err);
        // expected counters in window
        let (t1, e1) = if bs == kn as u64 * 1000 && bs != 0 { (t0 + 1, e0 + is_err as u64) } else { (1, is_err as u64) };
        let post = b.current_state();
        let exp = match pre {
            State::Open => State::Open,
            State::HalfOpen => if is_err { State::Open } else { State::Closed },
            State::Closed => if t1 >= min_req && e1 >= thr as u64 { State::Open } else { State::Closed },
        };
        assert!(code(post) == code(exp));
        let changed = code(post) != code(pre);
        unsafe {
            assert!(EV_OPEN + EV_CLOSED + EV_HALF == changed as u32);
            if changed { assert!(LAST_PREV == code(pre)); }
        }
        if code(pre) != 2 && code(post) == 2 { assert!(b.next_retry_timestamp_ms() == now + 3000); }
    }
}
