use vstd::prelude::*;
verus! {
fn cmp2(q: f64, t: f64) -> (r: bool)
    ensures r == (q < t)
{
    q < t
}
fn cmp3(q: f64, t: f64) -> (r: bool)
    ensures r == (q < t)
{
    q <= t
}
fn cmp4(q: f64, t: f64) -> (r: bool)
    ensures r == !(q >= t)
{
    q < t
}
fn conv(n: u32, t: f64) -> (r: bool)
    ensures r == ((n as f64) < t)
 { (n as f64) < t }
fn arith(a: f64, b: f64) -> (r: f64)
    ensures r == a + b
 { a + b }
}
fn main() {}
