use vstd::prelude::*;
verus! {

pub struct Error;
impl Error {
    #[verifier::external_body]
    pub fn msg(_m: &'static str) -> Error { Error }
}
pub type Result<T> = core::result::Result<T, Error>;

pub const ILLEGAL_GLOBAL_STATISTIC_PARAMS_ERROR: &'static str = "g";
pub const ILLEGAL_STATISTIC_PARAMS_ERROR: &'static str = "s";
pub const GLOBAL_STATISTIC_NON_REUSABLE_ERROR: &'static str = "n";

pub open spec fn valid_stat(sample_count: u32, interval_ms: u32) -> bool {
    interval_ms != 0 && sample_count != 0 && interval_ms % sample_count == 0
}

pub fn check_validity_for_statistic(
    sample_count: u32,
    interval_ms: u32,
    error_msg: &'static str,
) -> (r: Result<()>)
    ensures r.is_ok() == valid_stat(sample_count, interval_ms),
{
    if interval_ms == 0 || sample_count == 0 || interval_ms % sample_count != 0 {
        return Err(Error::msg(error_msg));
    }
    Ok(())
}

pub open spec fn reusable(sc: u32, im: u32, psc: u32, pim: u32) -> bool {
    valid_stat(sc, im) && valid_stat(psc, pim) && pim % im == 0 && (im / sc) % (pim / psc) == 0
}

pub fn check_validity_for_reuse_statistic(
    sample_count: u32,
    interval_ms: u32,
    parent_sample_count: u32,
    parent_interval_ms: u32,
) -> (r: Result<()>)
    ensures r.is_ok() == reusable(sample_count, interval_ms, parent_sample_count, parent_interval_ms),
{
    check_validity_for_statistic(sample_count, interval_ms, ILLEGAL_STATISTIC_PARAMS_ERROR)?;
    let bucket_length_in_ms = interval_ms / sample_count;

    check_validity_for_statistic(
        parent_sample_count,
        parent_interval_ms,
        ILLEGAL_GLOBAL_STATISTIC_PARAMS_ERROR,
    )?;
    let parent_bucket_length_in_ms = parent_interval_ms / parent_sample_count;

    //SlidingWindowMetric's intervalInMs is not divisible by BucketLeapArray's intervalInMs
    if parent_interval_ms % interval_ms != 0 {
        return Err(Error::msg(GLOBAL_STATISTIC_NON_REUSABLE_ERROR));
    }
    proof { assert(parent_interval_ms / parent_sample_count > 0) by(nonlinear_arith) requires parent_sample_count != 0, parent_interval_ms != 0, parent_interval_ms % parent_sample_count == 0; }
    // BucketLeapArray's BucketLengthInMs is not divisible by SlidingWindowMetric's BucketLengthInMs
    if bucket_length_in_ms % parent_bucket_length_in_ms != 0 {
        return Err(Error::msg(GLOBAL_STATISTIC_NON_REUSABLE_ERROR));
    }
    Ok(())
}

} // verus!
fn main() {}
