"""Shared helpers: paths, registry loading, scratch copies."""
import json
import os
import shutil
import subprocess
import sys
import time
import tomllib

VERIF = os.path.dirname(os.path.dirname(os.path.abspath(__file__)))
REPO = os.environ.get("VERIF_REPO", "/repo")
CONTRACTS = os.path.join(VERIF, "contracts")
EVIDENCE = os.path.join(VERIF, "evidence")
REPLAY = os.environ.get("VERIF_REPLAY_DIR") or os.path.join(VERIF, "replay")
SCRATCH_ROOT = os.environ.get("VERIF_SCRATCH", "/var/tmp")
SRC_REL = "sentinel-core/src"

TIERS = {"quick": 0, "thorough": 1}


class Undecided(Exception):
    """Raised when the machinery cannot decide (lost anchor, tool failure). Never a violation."""


def log(*a):
    print(*a, file=sys.stderr, flush=True)


def load_registry():
    with open(os.path.join(CONTRACTS, "obligations.toml"), "rb") as f:
        reg = tomllib.load(f)
    with open(os.path.join(CONTRACTS, "kani", "attrs.toml"), "rb") as f:
        attrs = tomllib.load(f)
    reg["attr"] = {a["id"]: a for a in attrs.get("attr", [])}
    names = set()
    kf = reg.get("kani_file", {})
    for o in reg.get("kani", []):
        d = kf.get(o["file"], {})
        for k in ("module", "needs", "attrs"):
            if k not in o and k in d:
                o[k] = d[k]
    for o in reg.get("kani", []) + reg.get("verus", []):
        if o["name"] in names:
            raise SystemExit("duplicate obligation name " + o["name"])
        names.add(o["name"])
        o.setdefault("tier", "quick")
        o.setdefault("bounded", "")
        o.setdefault("props", [])
        o.setdefault("fns", [])
        o.setdefault("attrs", [])
        o.setdefault("needs", [])
        o.setdefault("timeout", 1500)
        o.setdefault("desc", "")
        o.setdefault("trusted", [])
    return reg


def select(reg, backend, prop, tier):
    lvl = TIERS[tier]
    return [o for o in reg.get(backend, []) if prop in o["props"] and TIERS[o["tier"]] <= lvl]


class Scratch:
    """A copy of /repo's current working tree outside /repo and /verif; removed on close."""

    def __init__(self, tag):
        self.path = os.path.join(SCRATCH_ROOT, "verif-%s-%d" % (tag, os.getpid()))
        self.repo = os.path.join(self.path, "repo")
        self.target = os.path.join(self.path, "target")

    def __enter__(self):
        if os.path.exists(self.path):
            shutil.rmtree(self.path, ignore_errors=True)
        os.makedirs(self.path)
        subprocess.run(
            ["rsync", "-a", "--exclude", "/target", "--exclude", "/.git", "--exclude", "target/",
             REPO.rstrip("/") + "/", self.repo + "/"],
            check=True)
        return self

    def __exit__(self, *exc):
        if os.environ.get("VERIF_KEEP_SCRATCH"):
            log("[scratch kept] " + self.path)
            return False
        shutil.rmtree(self.path, ignore_errors=True)
        return False

    def src(self, rel):
        return os.path.join(self.repo, SRC_REL, rel)


def repo_head():
    try:
        h = subprocess.run(["git", "-C", REPO, "rev-parse", "--short", "HEAD"], capture_output=True, text=True).stdout.strip()
        d = subprocess.run(["git", "-C", REPO, "status", "--porcelain"], capture_output=True, text=True).stdout.strip()
        return h + ("+dirty" if d else "")
    except Exception:
        return "unknown"


def write_json(path, obj):
    os.makedirs(os.path.dirname(path), exist_ok=True)
    tmp = path + ".tmp"
    with open(tmp, "w") as f:
        json.dump(obj, f, indent=1, sort_keys=False)
        f.write("\n")
    os.replace(tmp, path)


def now():
    return time.time()
