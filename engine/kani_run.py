"""Run `cargo kani` on the annotated scratch crate and triage per-harness results."""
import os
import re
import subprocess
import threading
import time

from .common import Undecided, log

RSS_CAP_KB = int(os.environ.get("VERIF_CBMC_RSS_GB", "14")) * 1024 * 1024
JOBS = int(os.environ.get("VERIF_JOBS", "8"))

# Failures raised inside Kani's own allocator model (kani_lib.c) cannot be caused by the safe Rust code under contract;
# when one is present the memory model of that run is unreliable (measured: a Vec with capacity 1 and a dangling buffer),
# so the whole obligation is reported as undecided - never as a violation.
TOOL_ARTEFACT_PATTERNS = [
    r"rust_dealloc must be called on an object whose allocated size matches its layout",
    r"free argument must be",
    r"free argument has offset zero",
    r"double free",
    r"memcpy source region readable",
    r"Kani does not support reasoning about pointer to unallocated memory",
]

UNDECIDED_PATTERNS = [
    r"unwinding assertion",
    r"not currently supported by Kani",
    r"is not currently supported",
    r"unsupported",
    r"recursion unwinding assertion",
    r"Kani does not support",
]


def _children_rss():
    out = []
    try:
        ps = subprocess.run(["ps", "-eo", "pid,rss,comm"], capture_output=True, text=True).stdout
    except Exception:
        return out
    for ln in ps.splitlines()[1:]:
        parts = ln.split(None, 2)
        if len(parts) == 3 and parts[2].strip() in ("cbmc", "goto-instrument", "goto-cc"):
            try:
                out.append((int(parts[0]), int(parts[1])))
            except ValueError:
                pass
    return out


def _is_descendant(pid, root):
    try:
        while pid > 1:
            if pid == root:
                return True
            with open("/proc/%d/stat" % pid) as f:
                pid = int(f.read().rsplit(")", 1)[1].split()[1])
    except Exception:
        return False
    return False


def _limit_memory():
    """address-space cap inherited by every cbmc child: a runaway obligation ends as 'undecided', not as a host OOM"""
    import resource
    cap = (RSS_CAP_KB + 4 * 1024 * 1024) * 1024
    try:
        resource.setrlimit(resource.RLIMIT_AS, (cap, cap))
    except (ValueError, OSError):
        pass


class Watchdog(threading.Thread):
    def __init__(self, root_pid, max_age_s=None):
        super().__init__(daemon=True)
        self.root = root_pid
        self.max_age_s = max_age_s
        self.first_seen = {}
        self.stop = False
        self.killed = []
        self.peak_kb = 0

    def run(self):
        while not self.stop:
            for pid, rss in _children_rss():
                if not _is_descendant(pid, self.root):
                    continue
                self.peak_kb = max(self.peak_kb, rss)
                # Kani's --harness-timeout was seen not to fire (a cbmc ran 36 min under a 25 min limit): enforce it here
                age = time.time() - self.first_seen.setdefault(pid, time.time())
                if (self.max_age_s and age > self.max_age_s) or rss > RSS_CAP_KB:
                    try:
                        os.kill(pid, 9)
                        self.killed.append((pid, rss))
                    except OSError:
                        pass
            time.sleep(2)


def run(scratch, obligations, extra_flags=(), capture_playback=False):
    """Run the given obligations in one cargo-kani invocation.
    Returns dict name -> result dict {verdict, checks, failed, covers, time_s, raw}."""
    crate = os.path.join(scratch.repo, "sentinel-core")
    timeout = max(o["timeout"] for o in obligations)
    cmd = ["cargo", "kani", "-Z", "function-contracts", "-Z", "stubbing", "-Z", "unstable-options", "-Z", "restrict-vtable",
           "--harness-timeout", "%ds" % timeout,
           "--target-dir", scratch.target, "--output-format=terse", "--output-into-files", "--exact",
           "--no-assertion-reach-checks",
           "-j", str(min(JOBS, len(obligations)))]
    cmd += list(extra_flags)
    for o in obligations:
        cmd += ["--harness", o["module"] + "::" + o["name"]]
    env = dict(os.environ)
    env["CARGO_NET_OFFLINE"] = "true"
    env.pop("RUSTUP_TOOLCHAIN", None)
    env.pop("RUSTFLAGS", None)
    env.pop("CARGO_TARGET_DIR", None)
    log("[kani] " + " ".join(cmd[:12]) + " ... (%d harnesses)" % len(obligations))
    t0 = time.time()
    proc = subprocess.Popen(cmd, cwd=crate, env=env, stdout=subprocess.PIPE, stderr=subprocess.STDOUT, text=True,
                            preexec_fn=_limit_memory)
    wd = Watchdog(proc.pid, max_age_s=timeout + 120)
    wd.start()
    try:
        out, _ = proc.communicate(timeout=timeout * max(1, (len(obligations) + JOBS - 1) // JOBS) + 900)
    except subprocess.TimeoutExpired:
        proc.kill()
        out, _ = proc.communicate()
        out += "\n[verif] overall timeout\n"
    wd.stop = True
    wall = time.time() - t0
    compiled = "Finished `dev` profile" in out or "Checking harness" in out
    if not compiled:
        errs = [l for l in out.splitlines() if l.startswith("error")]
        tail = "\n".join(out.splitlines()[-40:])
        raise Undecided("Kani build of the annotated tree failed (contract/harness no longer compiles against the "
                        "current source, or compiler crash): %s\n%s" % ("; ".join(errs[:5]), tail))
    resdir = os.path.join(scratch.target, "result_output_dir")
    results = {}
    for o in obligations:
        full = o["module"] + "::" + o["name"]
        p = os.path.join(resdir, full)
        raw = ""
        if os.path.exists(p):
            with open(p) as f:
                raw = f.read()
        results[o["name"]] = triage(o, full, raw, out)
    meta = {"wall_s": wall, "peak_cbmc_rss_mb": wd.peak_kb // 1024, "killed_for_memory": wd.killed, "output": out}
    return results, meta


# the description may span several lines (assert! over a condition that rustfmt broke across lines)
CHECK_RE = re.compile(r"^Check \d+: (.+)\n\t - Status: (\w+)\n\t - Description: \"((?:.|\n(?!\t - |Check \d+: |\n))*)\"\n(?:\t - Location: (.*)\n)?", re.M)


def triage(o, full, raw, whole_out):
    r = {"harness": full, "verdict": "undecided", "reason": "", "checks": 0, "failed": [], "covers_total": 0,
         "covers_satisfied": 0, "time_s": None, "raw": raw}
    if not raw or "VERIFICATION:-" not in raw:
        if re.search(r"timed out|TIMEOUT", raw + whole_out):
            r["reason"] = "harness timeout / no result (CBMC did not finish within %ds)" % o["timeout"]
        else:
            r["reason"] = "no verification result produced (tool failure, memory cap, or timeout)"
        return r
    m = re.search(r"Verification Time: ([0-9.]+)s", raw)
    if m:
        r["time_s"] = float(m.group(1))
    checks = [(n, st, re.sub(r"\s*\n\s*", " ", d), loc) for n, st, d, loc in CHECK_RE.findall(raw)]
    r["checks"] = len([c for c in checks if ".cover." not in c[0]])
    failed_real = []
    failed_undec = []
    stub_cov_total = 0
    stub_cov_sat = 0
    for name, status, desc, loc in checks:
        if ".cover." in name or desc.startswith("cover condition"):
            if desc == "error path reachable":
                # the cover inside the generic error stub exists once per instantiation (&str, String, ..):
                # one satisfied instantiation is enough
                stub_cov_total += 1
                stub_cov_sat += (status == "SATISFIED")
                continue
            r["covers_total"] += 1
            if status == "SATISFIED":
                r["covers_satisfied"] += 1
            continue
        if status == "FAILURE":
            item = {"check": name, "description": desc, "location": loc}
            if any(re.search(p, desc) for p in UNDECIDED_PATTERNS) or ".missing_definition." in name:
                failed_undec.append(item)
            else:
                failed_real.append(item)
    if not failed_real and not failed_undec and "VERIFICATION:- FAILED" in raw:
        # fallback: the per-check list could not be parsed; use the summary lines
        for m in re.finditer(r"^Failed Checks: ((?:.|\n(?! File: ))*)\n File: (.*)$", raw, re.M):
            item = {"check": "?", "description": m.group(1).strip(), "location": m.group(2).strip()}
            (failed_undec if any(re.search(p, item["description"]) for p in UNDECIDED_PATTERNS) else failed_real).append(item)
    if stub_cov_total:
        r["covers_total"] += 1
        r["covers_satisfied"] += 1 if stub_cov_sat else 0
    artefacts = [f for f in failed_real if any(re.search(p, f["description"]) for p in TOOL_ARTEFACT_PATTERNS)]
    if artefacts:
        r["verdict"] = "undecided"
        r["reason"] = "tool artefact: failures inside Kani's allocator model (%s); memory model of this run unreliable" % artefacts[0]["description"]
        r["failed"] = []
        return r
    r["failed"] = failed_real
    if "VERIFICATION:- SUCCESSFUL" in raw and not failed_real and not failed_undec:
        if r["covers_total"] == 0:
            r["verdict"] = "undecided"
            r["reason"] = "vacuity guard: harness has no cover statement"
        elif r["covers_satisfied"] != r["covers_total"]:
            r["verdict"] = "undecided"
            r["reason"] = "vacuity guard: %d of %d cover conditions unreachable/unsatisfiable" % (
                r["covers_total"] - r["covers_satisfied"], r["covers_total"])
        elif r["checks"] == 0:
            r["reason"] = "vacuity guard: zero checks generated"
        else:
            r["verdict"] = "discharged"
        return r
    if failed_real:
        r["verdict"] = "refuted"
        r["reason"] = "; ".join(f["description"] for f in failed_real[:4])
        if failed_undec:
            r["reason"] += " (also undecided: %s)" % "; ".join(f["description"] for f in failed_undec[:2])
        return r
    r["verdict"] = "undecided"
    r["reason"] = "; ".join(f["description"] for f in failed_undec[:4]) or "verification failed without a failed property (tool error)"
    return r


def playback(scratch, obligation):
    """Re-run one refuted harness with concrete playback printing; return (unit test text, decoded values)."""
    crate = os.path.join(scratch.repo, "sentinel-core")
    cmd = ["cargo", "kani", "-Z", "function-contracts", "-Z", "stubbing", "-Z", "unstable-options", "-Z", "restrict-vtable",
           "-Z", "concrete-playback", "--concrete-playback=print",
           "--harness-timeout", "%ds" % obligation["timeout"],
           "--target-dir", scratch.target, "--exact",
           "--harness", obligation["module"] + "::" + obligation["name"]]
    env = dict(os.environ)
    env["CARGO_NET_OFFLINE"] = "true"
    for k in ("RUSTUP_TOOLCHAIN", "RUSTFLAGS", "CARGO_TARGET_DIR"):
        env.pop(k, None)
    try:
        out = subprocess.run(cmd, cwd=crate, env=env, capture_output=True, text=True,
                             timeout=obligation["timeout"] + 600, preexec_fn=_limit_memory).stdout
    except subprocess.TimeoutExpired:
        return None, []
    m = re.search(r"```\n?(.*?)```", out, re.S)
    test = None
    if m:
        test = m.group(1)
    else:
        m = re.search(r"(#\[test\]\s*fn kani_concrete_playback.*?\n\})", out, re.S)
        if m:
            test = m.group(1)
    vals = []
    if test:
        for cm, vec in re.findall(r"//\s*(.*?)\n\s*vec!\[([0-9,\s]*)\]", test):
            bs = [int(x) for x in vec.replace(" ", "").split(",") if x]
            vals.append({"value": cm.strip(), "bytes_le": bs})
    return test, vals
