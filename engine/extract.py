"""Verus side: cut real items out of the scratch sources and splice contracts around them.

A unit is a template (contracts/verus/<unit>.rs) that is ordinary Verus text plus directive blocks:

    //@extract-fn file=<rel path under sentinel-core/src> fn=<name> [within=`<block header>`]
    //@ ret: r
    //@ requires: <expr>
    //@ ensures: <expr>
    //@ subst: `<from>` => `<to>`
    //@ proof-before `<statement prefix>`: <proof text on one line>
    //@ proof-after `<statement prefix>`: <proof text inserted after the end of that statement>
    //@ invariant[<loop ordinal>]: <expr>
    //@ invariant_except_break[<loop ordinal>]: <expr>
    //@ loop-ensures[<loop ordinal>]: <expr>
    //@ decreases[<loop ordinal>]: <expr>
    //@ strip-vis
    //@end

    //@extract-struct file=<rel> name=<Name> [keep=a,b,c] [generics=drop]
    //@end

    //@extract-const file=<rel> name=<NAME>

The function body is copied verbatim from the scratch tree except for the substitutions the directive
spells out (each is recorded in the evidence) and the removal of `logging::*!(..);` statements.
The signature is only changed from `-> T` to `-> (r: T)`; requires/ensures are inserted between
signature and body; invariants are inserted after the loop header selected by ordinal.
"""
import os
import re

from . import rsrc
from .common import CONTRACTS, Undecided

DIRECTIVE = re.compile(r"^[ \t]*//@(extract-fn|extract-struct|extract-const)\b(.*)$")


def _kv(rest):
    out = {}
    for m in re.finditer(r"(\w+)=(`[^`]*`|\S+)", rest):
        v = m.group(2)
        if v.startswith("`"):
            v = v[1:-1]
        out[m.group(1)] = v
    return out


def _strip_logging(body, dropped):
    # remove `logging::xxx!( ... );` statements (balanced parens)
    out = []
    i = 0
    while True:
        m = re.search(r"logging::\w+!\s*\(", body[i:])
        if not m:
            out.append(body[i:])
            break
        s = i + m.start()
        out.append(body[i:s])
        depth = 0
        j = i + m.end() - 1
        k = None
        for idx, c in rsrc.scan(body, j):
            if c == "(":
                depth += 1
            elif c == ")":
                depth -= 1
                if depth == 0:
                    k = idx + 1
                    break
        if k is None:
            raise Undecided("extract: unbalanced logging macro")
        while k < len(body) and body[k] in " \t":
            k += 1
        if k < len(body) and body[k] == ";":
            k += 1
        dropped.append(" ".join(body[s:k].split())[:120])
        i = k
    return "".join(out)


def _loop_headers(body):
    """Indices of the '{' opening each loop body (for/while/loop), in textual order."""
    opens = []
    for m in re.finditer(r"\b(for|while|loop)\b", body):
        # confirm not in comment/string: walk scan from 0 is expensive; accept
        depth = 0
        for i, c in rsrc.scan(body, m.end()):
            if c in "([":
                depth += 1
            elif c in ")]":
                depth -= 1
            elif c == "{" and depth == 0:
                opens.append(i)
                break
            elif c == ";" and depth == 0:
                break
    return opens


def extract_fn(scratch, kv, lines, report):
    rel = kv["file"]
    p = scratch.src(rel)
    if not os.path.exists(p):
        raise Undecided("lost anchor: %s is gone" % rel)
    s = open(p).read()
    start, end = 0, len(s)
    if "within" in kv:
        blk = rsrc.find_block(s, kv["within"])
        if blk is None:
            raise Undecided("lost anchor: block `%s` in %s" % (kv["within"], rel))
        start, end = blk[1], blk[2]
    loc = rsrc.find_fn(s, kv["fn"], start, end)
    if loc is None:
        raise Undecided("lost anchor: fn `%s` in %s" % (kv["fn"], rel))
    ls, bo, bc = loc
    sig = s[ls:bo].rstrip()
    body = s[bo:bc + 1]
    ret = None
    requires, ensures, substs, proofs, invs, decs = [], [], [], [], {}, {}
    xinvs, lens = {}, {}
    proofs_after = []
    strip_vis = False
    rename = None
    for ln in lines:
        t = ln.strip()[3:].strip()
        if t.startswith("ret:"):
            ret = t[4:].strip()
        elif t.startswith("requires:"):
            requires.append(t[9:].strip())
        elif t.startswith("ensures:"):
            ensures.append(t[8:].strip())
        elif t.startswith("subst:"):
            m = re.match(r"subst:\s*`([^`]*)`\s*=>\s*`([^`]*)`", t)
            if not m:
                raise SystemExit("bad subst directive: " + t)
            substs.append((m.group(1), m.group(2)))
        elif t.startswith("proof-before"):
            m = re.match(r"proof-before\s*`([^`]*)`\s*:\s*(.*)$", t)
            if not m:
                raise SystemExit("bad proof-before directive: " + t)
            proofs.append((m.group(1), m.group(2)))
        elif t.startswith("proof-after"):
            m = re.match(r"proof-after\s*`([^`]*)`\s*:\s*(.*)$", t)
            if not m:
                raise SystemExit("bad proof-after directive: " + t)
            proofs_after.append((m.group(1), m.group(2)))
        elif t.startswith("invariant["):
            m = re.match(r"invariant\[(\d+)\]:\s*(.*)$", t)
            invs.setdefault(int(m.group(1)), []).append(m.group(2))
        elif t.startswith("invariant_except_break["):
            m = re.match(r"invariant_except_break\[(\d+)\]:\s*(.*)$", t)
            xinvs.setdefault(int(m.group(1)), []).append(m.group(2))
        elif t.startswith("loop-ensures["):
            m = re.match(r"loop-ensures\[(\d+)\]:\s*(.*)$", t)
            lens.setdefault(int(m.group(1)), []).append(m.group(2))
        elif t.startswith("decreases["):
            m = re.match(r"decreases\[(\d+)\]:\s*(.*)$", t)
            decs[int(m.group(1))] = m.group(2)
        elif t.startswith("strip-vis"):
            strip_vis = True
        elif t.startswith("rename:"):
            rename = t[7:].strip()
        elif t:
            raise SystemExit("unknown directive line: " + ln)
    dropped = []
    body = _strip_logging(body, dropped)
    # `#[cfg(feature = "..")] <statement>;` : the workspace's default feature set is empty (sentinel-core/Cargo.toml:
    # default = []), which is the build the test suite and the checks use, so such a statement is not part of the code
    # that runs; it is removed and recorded. Any other cfg inside a body is refused.
    while True:
        m = re.search(r'#\[cfg\(feature\s*=\s*"[^"]*"\)\]\s*', body)
        if not m:
            break
        depth = 0
        end = None
        for i, c in rsrc.scan(body, m.end()):
            if c in "([{":
                depth += 1
            elif c in ")]}":
                depth -= 1
                if depth < 0:
                    break
            elif c == ";" and depth == 0:
                end = i + 1
                break
        if end is None:
            raise Undecided("extract: cfg(feature)-guarded item without a terminating `;` in %s::%s" % (rel, kv["fn"]))
        dropped.append(" ".join(body[m.start():end].split()))
        body = body[:m.start()] + body[end:]
    if "#[cfg(" in body:
        raise Undecided("extract: cfg-guarded code inside %s::%s is outside the extractable subset" % (rel, kv["fn"]))
    for a, b in substs:
        if a not in sig and a not in body:
            raise Undecided("extract: substitution source `%s` no longer occurs in %s" % (a, kv["fn"]))
        sig = sig.replace(a, b)
        body = body.replace(a, b)
    # invariants / decreases (insert from last loop to first so indices stay valid)
    if invs or decs or xinvs or lens:
        opens = _loop_headers(body)
        for k in sorted(set(list(invs) + list(decs) + list(xinvs) + list(lens)), reverse=True):
            if k >= len(opens):
                raise Undecided("extract: loop #%d not found in %s" % (k, kv["fn"]))
            ins = ""
            if k in xinvs:
                ins += "\n        invariant_except_break\n" + "".join("            %s,\n" % e for e in xinvs[k])
            if k in invs:
                ins += "\n        invariant\n" + "".join("            %s,\n" % e for e in invs[k])
            if k in lens:
                ins += "        ensures\n" + "".join("            %s,\n" % e for e in lens[k])
            if k in decs:
                ins += "        decreases %s,\n" % decs[k]
            body = body[:opens[k]] + ins + "    " + body[opens[k]:]
    for prefix, text in proofs:
        idx = body.find(prefix)
        if idx < 0 or body.find(prefix, idx + 1) >= 0:
            raise Undecided("extract: proof anchor `%s` not found exactly once in %s" % (prefix, kv["fn"]))
        body = body[:idx] + text + "\n        " + body[idx:]
    for prefix, text in proofs_after:
        idx = body.find(prefix)
        if idx < 0 or body.find(prefix, idx + 1) >= 0:
            raise Undecided("extract: proof anchor `%s` not found exactly once in %s" % (prefix, kv["fn"]))
        # end of the statement that contains the anchor: the next `;` at the outermost bracket depth reached so far
        # (the anchor may sit inside a nested block of its statement, e.g. `let x = if c { <anchor> } else { .. };`)
        depth = 0
        low = 0
        end = None
        for i, c in rsrc.scan(body, idx):
            if c in "([{":
                depth += 1
            elif c in ")]}":
                depth -= 1
                low = min(low, depth)
            elif c == ";" and depth == low:
                end = i + 1
                break
        if end is None:
            raise Undecided("extract: statement after anchor `%s` has no end in %s" % (prefix, kv["fn"]))
        body = body[:end] + "\n        " + text + body[end:]
    # signature
    sig = re.sub(r"^[ \t]*#\[[^\]]*\]\s*", "", sig)
    if strip_vis:
        sig = re.sub(r"^([ \t]*)pub(\([^)]*\))?\s+", r"\1", sig)
    else:
        sig = re.sub(r"^([ \t]*)pub\([^)]*\)\s+", r"\1pub ", sig)
    if rename:
        sig = re.sub(r"\bfn\s+%s\b" % re.escape(kv["fn"]), "fn " + rename, sig, count=1)
    if ret:
        # last top-level '->'
        depth = 0
        arrow = None
        for i, c in rsrc.scan(sig, 0):
            if c in "([<":
                depth += 1 if c != "<" else 0
            elif c in ")]":
                depth -= 1
            if c == "-" and sig[i:i + 2] == "->" and depth == 0:
                arrow = i
        if arrow is None:
            raise Undecided("extract: %s has no return type any more" % kv["fn"])
        rt = sig[arrow + 2:].strip()
        wh = ""
        m = re.search(r"\bwhere\b", rt)
        if m:
            wh = " " + rt[m.start():]
            rt = rt[:m.start()].strip()
        sig = sig[:arrow] + "-> (%s: %s)%s" % (ret, rt, wh)
    spec = ""
    if requires:
        spec += "\n    requires\n" + "".join("        %s,\n" % e for e in requires)
    if ensures:
        spec += ("\n" if not requires else "") + "    ensures\n" + "".join("        %s,\n" % e for e in ensures)
    report.append({
        "item": "fn " + kv["fn"], "file": rel, "source_lines": [rsrc.line_of(s, ls), rsrc.line_of(s, bc)],
        "substitutions": ["%s => %s" % ab for ab in substs], "dropped_statements": dropped,
        "requires": requires, "ensures": ensures,
        "inserted_loop_invariants": {str(k): v + ["(except at break) " + e for e in xinvs.get(k, [])] + ["(loop ensures) " + e for e in lens.get(k, [])]
                                     for k, v in {**{j: [] for j in list(xinvs) + list(lens)}, **invs}.items()},
        "inserted_proof_lines": [t for _, t in proofs] + [t for _, t in proofs_after],
    })
    return sig + spec + body + "\n"


def extract_struct(scratch, kv, lines, report):
    rel = kv["file"]
    s = open(scratch.src(rel)).read()
    m = re.search(r"^[ \t]*pub(?:\([^)]*\))?\s+struct\s+%s\b[^{;]*\{" % re.escape(kv["name"]), s, re.M)
    if not m:
        raise Undecided("lost anchor: struct %s in %s" % (kv["name"], rel))
    o = m.end() - 1
    c = rsrc.match_brace(s, o)
    inner = s[o + 1:c]
    keep = kv.get("keep")
    fields = []
    dropped = []
    for fm in re.finditer(r"^[ \t]*(?:pub(?:\([^)]*\))?\s+)?(\w+)\s*:\s*([^,\n]+),?[ \t]*(?://.*)?$", inner, re.M):
        name, ty = fm.group(1), fm.group(2).strip()
        if keep is None or name in keep.split(","):
            fields.append((name, ty))
        else:
            dropped.append(name)
    head = "pub struct %s" % kv["name"]
    if kv.get("generics") != "drop":
        g = re.search(r"struct\s+%s\s*(<[^{]*>)" % re.escape(kv["name"]), m.group(0))
        if g:
            head += g.group(1)
    report.append({"item": "struct " + kv["name"], "file": rel, "kept_fields": [f[0] for f in fields],
                   "dropped_fields": dropped})
    return head + " {\n" + "".join("    pub %s: %s,\n" % f for f in fields) + "}\n"


def extract_const(scratch, kv, lines, report):
    rel = kv["file"]
    s = open(scratch.src(rel)).read()
    m = re.search(r"^[ \t]*(?:pub(?:\([^)]*\))?\s+)?const\s+%s\s*:\s*([^=]+)=\s*([^;]+);" % re.escape(kv["name"]), s, re.M)
    if not m:
        raise Undecided("lost anchor: const %s in %s" % (kv["name"], rel))
    ty = m.group(1).strip()
    val = " ".join(m.group(2).split())
    if ty == "&str":
        ty = "&'static str"
    report.append({"item": "const " + kv["name"], "file": rel, "value": val[:80]})
    return "pub const %s: %s = %s;\n" % (kv["name"], ty, val)


def build_unit(scratch, unit, outdir):
    """Expand contracts/verus/<unit>.rs into outdir/<unit>.rs. Returns (path, extraction report)."""
    tpath = os.path.join(CONTRACTS, "verus", unit + ".rs")
    src = open(tpath).read().split("\n")
    out = []
    report = []
    i = 0
    while i < len(src):
        m = DIRECTIVE.match(src[i])
        if not m:
            out.append(src[i])
            i += 1
            continue
        kind, rest = m.group(1), m.group(2)
        kv = _kv(rest)
        block = []
        i += 1
        if kind != "extract-const":
            while i < len(src) and src[i].strip() != "//@end":
                if not src[i].strip().startswith("//@"):
                    raise SystemExit("%s: non-directive line inside extract block: %s" % (unit, src[i]))
                block.append(src[i])
                i += 1
            i += 1
        out.append("// ---- extracted from %s (%s) ----" % (kv.get("file"), kind))
        if kind == "extract-fn":
            out.append(extract_fn(scratch, kv, block, report))
        elif kind == "extract-struct":
            out.append(extract_struct(scratch, kv, block, report))
        else:
            out.append(extract_const(scratch, kv, block, report))
    os.makedirs(outdir, exist_ok=True)
    path = os.path.join(outdir, unit + ".rs")
    with open(path, "w") as f:
        f.write("\n".join(out))
    return path, report
