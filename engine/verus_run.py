"""Run Verus on an expanded unit file and triage per-function results."""
import json
import os
import re
import subprocess
import time

from .common import Undecided, log

REFUTE_PATTERNS = [
    r"postcondition not satisfied", r"precondition not satisfied", r"assertion failed",
    r"possible arithmetic underflow/overflow", r"possible division by zero", r"invariant not satisfied",
    r"possible bit shift underflow/overflow", r"decreases not satisfied", r"recommendation not met",
    r"index out of bounds", r"unreachable", r"possible truncation", r"may overflow", r"split",
]


def run(path, unit):
    env = dict(os.environ)
    cmd = ["verus", path, "--output-json", "--time", "--multiple-errors", "10", "--crate-name", "vu_" + unit]
    t0 = time.time()
    try:
        p = subprocess.run(cmd, capture_output=True, text=True, timeout=900, env=env, cwd=os.path.dirname(path))
    except subprocess.TimeoutExpired:
        raise Undecided("verus timed out on unit " + unit)
    wall = time.time() - t0
    try:
        js = json.loads(p.stdout)
    except Exception:
        raise Undecided("verus produced no JSON for unit %s: %s" % (unit, (p.stderr or p.stdout)[-1500:]))
    vr = js.get("verification-results", {})
    stderr = p.stderr
    # compile / VIR errors => undecided
    if vr.get("encountered-vir-error") or ("verified" not in vr) or re.search(r"^error\[E\d+\]", stderr, re.M):
        raise Undecided("verus could not process unit %s (unsupported construct after extraction?):\n%s" % (unit, stderr[-3000:]))
    funcs = {}
    try:
        for mod in js["times-ms"]["smt"]["smt-run-module-times"]:
            for fb in mod.get("function-breakdown", []):
                name = fb["function"].split("::", 1)[1] if "::" in fb["function"] else fb["function"]
                funcs[name] = {"success": bool(fb.get("success")), "time_ms": fb.get("time", 0), "rlimit": fb.get("rlimit", 0)}
    except KeyError:
        pass
    # error blocks from stderr, attributed by line number to functions later
    errors = []
    for m in re.finditer(r"^error(?:\[E\d+\])?: (.*)\n\s*--> [^:\n]+:(\d+):\d+", stderr, re.M):
        errors.append({"message": m.group(1).strip(), "line": int(m.group(2))})
    hard = [e for e in errors if not any(re.search(p, e["message"]) for p in REFUTE_PATTERNS)
            and not e["message"].startswith("aborting")]
    rlimit = bool(re.search(r"[Rr]esource limit|rlimit", stderr))
    return {"funcs": funcs, "errors": errors, "hard_errors": hard, "rlimit": rlimit, "summary": vr, "wall_s": wall,
            "stderr": stderr, "smt_ms": js.get("times-ms", {}).get("smt", {}).get("smt-run", 0),
            "version": js.get("verus", {}).get("version", "")}


def fn_line_ranges(path):
    """Map line -> enclosing top-level fn name in the expanded unit (for attributing diagnostics)."""
    from . import rsrc
    s = open(path).read()
    ranges = []
    for m in re.finditer(r"^[ \t]*(?:pub\s+)?(?:open\s+|closed\s+)?(?:spec\s+|proof\s+|exec\s+)?fn\s+(\w+)", s, re.M):
        depth = 0
        for i, c in rsrc.scan(s, m.end()):
            if c in "([":
                depth += 1
            elif c in ")]":
                depth -= 1
            elif c == "{" and depth == 0:
                try:
                    e = rsrc.match_brace(s, i)
                except ValueError:
                    break
                ranges.append((rsrc.line_of(s, m.start()), rsrc.line_of(s, e), m.group(1)))
                break
            elif c == ";" and depth == 0:
                break
    return ranges


def attribute(ranges, line):
    best = None
    for a, b, n in ranges:
        if a <= line <= b and (best is None or a >= best[0]):
            best = (a, b, n)
    return best[2] if best else None
