"""Kani side: annotate the scratch copy in place, mechanically.

* attribute lines (all `#[cfg_attr(kani, ...)]`) are inserted immediately above an anchored `fn`;
* harness modules (`#[cfg(kani)] mod ... { }`) are appended to the end of the anchored source file;
* `verif_support.rs` is added as a `#[cfg(kani)]` module of the crate.

Nothing else is touched; with cfg(kani) off the token stream of the crate is unchanged.
A lost anchor raises Undecided (exit 2), never a violation.
"""
import os
import re

from . import rsrc
from .common import CONTRACTS, Undecided


def _read(p):
    with open(p) as f:
        return f.read()


def _write(p, s):
    with open(p, "w") as f:
        f.write(s)


STD_EXTRA = [
    "#[kani::stub(std::sync::Arc::drop_slow, crate::verif_support::arc_drop_slow_noop)]",
    "#[kani::stub(std::sync::Once::call_once, crate::verif_support::once_stub)]",
    "#[kani::stub(core::result::unwrap_failed, crate::verif_support::unwrap_failed_stub)]",
]


def _expand_std_stubs(text):
    """Every harness that carries the Backtrace stub also gets the two other standard stubs (Arc::drop_slow -> leak,
    Once::call_once -> run the closure), unless its attribute group says `//@keep-drop`."""
    out = []
    lines = text.split("\n")
    for i, l in enumerate(lines):
        out.append(l)
        if "kani::stub(std::backtrace::Backtrace::capture" in l:
            grp = []
            j = i
            while j >= 0 and (lines[j].strip().startswith("#[") or lines[j].strip().startswith("//@")):
                grp.append(lines[j])
                j -= 1
            j = i + 1
            while j < len(lines) and (lines[j].strip().startswith("#[") or lines[j].strip().startswith("//@")):
                grp.append(lines[j])
                j += 1
            if any("//@keep-drop" in g for g in grp):
                continue
            ind = l[:len(l) - len(l.lstrip())]
            for e in STD_EXTRA:
                if not any(e.split("(")[1].split(",")[0] in g for g in grp):
                    out.append(ind + e)
    return "\n".join(out)


def harness_target(path):
    with open(path) as f:
        first = f.readline()
    m = re.match(r"//@target\s+(\S+)", first)
    if not m:
        raise SystemExit("harness file %s lacks //@target line" % path)
    return m.group(1)


def apply(scratch, reg, obligations):
    """Inject everything the given Kani obligations need. Returns a record of what was inserted."""
    record = {"attrs": [], "harness_files": [], "support": []}
    attr_ids = []
    files = []
    for o in obligations:
        for a in o["attrs"]:
            if a not in attr_ids:
                attr_ids.append(a)
        for f in [o["file"]] + list(o["needs"]):
            if f not in files:
                files.append(f)

    # 1. attributes in place (bottom-up per file so offsets stay valid)
    by_file = {}
    for aid in attr_ids:
        a = reg["attr"].get(aid)
        if a is None:
            raise SystemExit("unknown attr id " + aid)
        by_file.setdefault(a["file"], []).append(a)
    for rel, attrs in by_file.items():
        p = scratch.src(rel)
        if not os.path.exists(p):
            raise Undecided("lost anchor: file %s is gone" % rel)
        s = _read(p)
        inserts = []
        for a in attrs:
            start, end = 0, len(s)
            if a.get("within"):
                blk = rsrc.find_block(s, a["within"])
                if blk is None:
                    raise Undecided("lost anchor: block `%s` in %s" % (a["within"], rel))
                start, end = blk[1], blk[2]
            loc = rsrc.find_fn(s, a["fn"], start, end)
            if loc is None:
                raise Undecided("lost anchor: fn `%s` (within `%s`) in %s" % (a["fn"], a.get("within", ""), rel))
            for ln in a["lines"]:
                if "kani" not in ln or not ln.lstrip().startswith("#[cfg_attr(kani"):
                    raise SystemExit("attr %s: every inserted line must be #[cfg_attr(kani, ..)]" % a["id"])
            indent = re.match(r"[ \t]*", s[loc[0]:]).group(0)
            text = "".join(indent + ln.strip() + "\n" for ln in a["lines"])
            inserts.append((loc[0], text, a["id"]))
        for pos, text, aid in sorted(inserts, reverse=True):
            s = s[:pos] + text + s[pos:]
            record["attrs"].append({"id": aid, "file": rel})
        _write(p, s)

    # 2. harness modules appended
    for f in files:
        hp = os.path.join(CONTRACTS, "kani", "harness", f)
        rel = harness_target(hp)
        p = scratch.src(rel)
        if not os.path.exists(p):
            raise Undecided("lost anchor: file %s is gone" % rel)
        body = _expand_std_stubs(_read(hp))
        if "#[cfg(kani)]" not in body:
            raise SystemExit("harness %s is not cfg(kani)-guarded" % f)
        s = _read(p)
        s += "\n\n// ---- appended by /verif (cfg(kani) only) : %s ----\n" % f + body
        _write(p, s)
        record["harness_files"].append({"file": f, "target": rel})

    # 3. support module
    sup = os.path.join(CONTRACTS, "kani", "verif_support.rs")
    _write(scratch.src("verif_support.rs"), _read(sup))
    lib = scratch.src("lib.rs")
    s = _read(lib)
    s += "\n#[cfg(kani)]\n#[allow(dead_code, unused)]\npub(crate) mod verif_support;\n"
    # crate-level feature gate needed by the generic Arc::drop_slow stub (cfg(kani) only)
    s = "#![cfg_attr(kani, feature(allocator_api))]\n#![cfg_attr(kani, recursion_limit = \"1024\")]\n" + s
    _write(lib, s)
    record["support"].append("verif_support.rs")
    return record
