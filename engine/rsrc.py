"""Minimal Rust source scanning: brace matching that respects strings, chars, comments;
locating `fn` items and `impl`/`mod` blocks by header text."""
import re


def _skip_string(s, i):
    # s[i] == '"'
    i += 1
    n = len(s)
    while i < n:
        c = s[i]
        if c == "\\":
            i += 2
            continue
        if c == '"':
            return i + 1
        i += 1
    return n


def _skip_raw_string(s, i):
    # s[i] == 'r', followed by #*"
    j = i + 1
    hashes = 0
    while j < len(s) and s[j] == "#":
        hashes += 1
        j += 1
    if j >= len(s) or s[j] != '"':
        return None
    end = s.find('"' + "#" * hashes, j + 1)
    if end < 0:
        return len(s)
    return end + 1 + hashes


def scan(s, start, on_open=None):
    """Yield (index, char) for structural characters outside strings/comments starting at start."""
    i = start
    n = len(s)
    while i < n:
        c = s[i]
        if c == "/" and i + 1 < n and s[i + 1] == "/":
            j = s.find("\n", i)
            i = n if j < 0 else j
            continue
        if c == "/" and i + 1 < n and s[i + 1] == "*":
            depth = 1
            i += 2
            while i < n and depth:
                if s.startswith("/*", i):
                    depth += 1
                    i += 2
                elif s.startswith("*/", i):
                    depth -= 1
                    i += 2
                else:
                    i += 1
            continue
        if c == '"':
            i = _skip_string(s, i)
            continue
        if c == "r" and i + 1 < n and s[i + 1] in '#"' and (i == 0 or not (s[i - 1].isalnum() or s[i - 1] == "_")):
            j = _skip_raw_string(s, i)
            if j is not None:
                i = j
                continue
        if c == "b" and i + 1 < n and s[i + 1] == '"' and (i == 0 or not (s[i - 1].isalnum() or s[i - 1] == "_")):
            i = _skip_string(s, i + 1)
            continue
        if c == "'":
            # char literal or lifetime
            m = re.match(r"'(\\.[^']*|[^'\\])'", s[i:i + 12])
            if m:
                i += m.end()
                continue
            i += 1
            continue
        yield i, c
        i += 1


def match_brace(s, open_idx):
    """Index of the '}' matching the '{' at open_idx."""
    assert s[open_idx] == "{"
    depth = 0
    for i, c in scan(s, open_idx):
        if c == "{":
            depth += 1
        elif c == "}":
            depth -= 1
            if depth == 0:
                return i
    raise ValueError("unbalanced braces")


def find_block(s, header, start=0, end=None):
    """Find a block whose header text (whitespace-normalised) starts a line; return (hdr_start, open, close)."""
    end = len(s) if end is None else end
    norm = " ".join(header.split())
    # tolerate a trailing '{' in the header spec
    norm = norm.rstrip("{").strip()
    pat = re.compile(r"^[ \t]*" + r"\s+".join(re.escape(t) for t in norm.split(" ")) + r"\s*(where[^{]*)?\{", re.M)
    hits = [m for m in pat.finditer(s, start, end)]
    if len(hits) != 1:
        return None
    m = hits[0]
    o = m.end() - 1
    return m.start(), o, match_brace(s, o)


FN_RE = r"^[ \t]*(?:pub(?:\([^)]*\))?\s+)?(?:const\s+)?(?:async\s+)?(?:unsafe\s+)?fn\s+%s\b"


def find_fn(s, name, start=0, end=None):
    """Locate `fn name` (unique in [start,end)); return (line_start, body_open, body_close)."""
    end = len(s) if end is None else end
    hits = []
    for m in re.finditer(FN_RE % re.escape(name), s[:end], re.M):
        if m.start() < start:
            continue
        # must be outside comments/strings: cheap check — the line does not start with //
        hits.append(m)
    if len(hits) != 1:
        return None
    m = hits[0]
    # find body '{' : first '{' at paren/bracket depth 0 after the match
    depth = 0
    for i, c in scan(s, m.end()):
        if c in "([":
            depth += 1
        elif c in ")]":
            depth -= 1
        elif c == ";" and depth == 0:
            return None  # declaration without body
        elif c == "{" and depth == 0:
            return m.start(), i, match_brace(s, i)
    return None


def line_of(s, idx):
    return s.count("\n", 0, idx) + 1
