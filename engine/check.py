"""check <PROPERTY> [--tier quick|thorough] [--replay FILE] [--only a,b] : decide one property."""
import argparse
import json
import os
import re
import sys
import time

from . import extract, inject, kani_run, verus_run
from .common import (CONTRACTS, EVIDENCE, REPLAY, VERIF, Scratch, Undecided, load_registry, log, repo_head, select,
                     write_json)

GLOBAL_ASSUMPTIONS = [
    "sequential execution: atomics/Mutex/RwLock are exercised by one thread; a CAS or try_lock never fails spuriously",
    "clock: utils::curr_time_millis / curr_time_nanos are replaced (kani::stub) by a harness-chosen symbolic value; "
    "OffsetDateTime::now_utc, the ticker thread and thread::sleep are trusted",
    "std::backtrace::Backtrace::capture is stubbed by Backtrace::disabled (diagnostics only)",
    "core::system_metric::get_total_memory_size is stubbed by an arbitrary value (avoids sysinfo/rayon in the dyn SentinelRule vtable)",
    "std::sync::Arc::drop_slow is stubbed by a no-op (objects are leaked instead of freed; reference counts still move exactly; "
    "Drop impls of pointees are not run) and std::sync::Once::call_once by 'run the closure' - in every Kani obligation",
    "Kani runs with -Z restrict-vtable (virtual calls are resolved to the implementations of that trait method only; without it "
    "CBMC resolves them to every function with a compatible signature and does not finish); this unstable Kani feature is trusted",
    "Kani 0.68 / CBMC 6.11 / CaDiCaL, Verus 0.2026.09.13 / z3 and rustc are trusted; Kani's memory model of Arc/Mutex/Vec is trusted",
    "machine integers are bit-precise (overflow checked); floats are IEEE-754 bit-precise in CBMC, never treated as reals; "
    "termination is not proved by Kani (loops are closed by unwinding assertions)",
]


def load_findings():
    p = os.path.join(VERIF, "known_findings.json")
    if not os.path.exists(p):
        return {"findings": [], "fixed": []}
    with open(p) as f:
        return json.load(f)


def scan_trusted(files):
    """Mechanical scan of the contract texts for every assumption-introducing construct."""
    found = []
    pats = [r"kani::stub\(([^)]*)\)", r"kani::stub_verified\(([^)]*)\)", r"kani::assume\(", r"external_body",
            r"\bassume\(", r"\badmit\(", r"assume_specification", r"external_type_specification", r"external_fn_specification"]
    for path in files:
        try:
            s = open(path).read()
        except OSError:
            continue
        base = os.path.relpath(path, VERIF)
        counts = {}
        for p in pats:
            for m in re.finditer(p, s):
                key = p.split("\\")[0] if "(" not in m.group(0) else m.group(0)
                if m.groups() and m.group(1) is not None:
                    key = m.group(0)
                counts[key] = counts.get(key, 0) + 1
        for k, v in sorted(counts.items()):
            found.append("%s: %s x%d" % (base, " ".join(k.split()), v))
    return found


def decide(prop, tier, only=None, seed=0):
    t0 = time.time()
    reg = load_registry()
    kobs = select(reg, "kani", prop, tier)
    vobs = select(reg, "verus", prop, tier)
    if only:
        kobs = [o for o in kobs if o["name"] in only]
        vobs = [o for o in vobs if o["name"] in only]
    if not kobs and not vobs:
        raise SystemExit("no obligations registered for %s at tier %s" % (prop, tier))
    results = []  # dicts: name, backend, verdict, reason, ...
    meta = {"kani": None, "verus_units": {}, "injected": None, "extraction": {}}
    undecided_global = None
    scan_files = []
    with Scratch(prop) as sc:
        # ---------- Verus ----------
        units = []
        for o in vobs:
            if o["unit"] not in units:
                units.append(o["unit"])
        for unit in units:
            uobs = [o for o in vobs if o["unit"] == unit]
            scan_files.append(os.path.join(CONTRACTS, "verus", unit + ".rs"))
            try:
                path, rep = extract.build_unit(sc, unit, os.path.join(sc.path, "verus"))
                # keep a copy of the expanded unit next to the evidence
                keep = os.path.join(EVIDENCE, "expanded", prop)
                os.makedirs(keep, exist_ok=True)
                with open(os.path.join(keep, unit + ".rs"), "w") as f:
                    f.write(open(path).read())
                meta["extraction"][unit] = rep
                vr = verus_run.run(path, unit)
                ranges = verus_run.fn_line_ranges(path)
                canary = vr["funcs"].get("verif_canary")
                text = open(path).read()
                per_fn_errs = {}
                for e in vr["errors"]:
                    fn = verus_run.attribute(ranges, e["line"])
                    per_fn_errs.setdefault(fn, []).append(e)
                hard = [e for e in vr["hard_errors"] if verus_run.attribute(ranges, e["line"]) != "verif_canary"]
                if "fn verif_canary" not in text:
                    raise Undecided("unit %s has no vacuity canary" % unit)
                if canary is None or canary["success"]:
                    raise Undecided("vacuity guard: canary `assert(false)` verified in unit %s (contradictory axiom/requires?)" % unit)
                if hard:
                    raise Undecided("verus reported non-verification errors in unit %s: %s" % (unit, hard[:3]))
                meta["verus_units"][unit] = {"wall_s": round(vr["wall_s"], 2), "smt_ms": vr["smt_ms"], "verified": vr["summary"].get("verified"),
                                             "errors": vr["summary"].get("errors"), "version": vr["version"]}
                for o in uobs:
                    r = {"name": o["name"], "backend": "verus", "unit": unit, "fn": o["fn"], "kind": o.get("kind", "V"),
                         "bounded": o["bounded"], "fns": o["fns"], "desc": o["desc"]}
                    f = vr["funcs"].get(o["fn"])
                    if f is None:
                        r.update(verdict="undecided", reason="function %s not found in verus function breakdown" % o["fn"])
                    elif f["success"]:
                        r.update(verdict="discharged", reason="", time_s=f["time_ms"] / 1000.0, rlimit=f["rlimit"])
                    else:
                        errs = per_fn_errs.get(o["fn"], []) or per_fn_errs.get(o["fn"].split("::")[-1], [])
                        if vr["rlimit"] and not errs:
                            r.update(verdict="undecided", reason="rlimit exceeded")
                        else:
                            r.update(verdict="refuted", reason="; ".join(sorted(set(e["message"] for e in errs))) or "verification failed",
                                     verifier_output=_excerpt(vr["stderr"], o["fn"], ranges), time_s=f["time_ms"] / 1000.0)
                    results.append(r)
            except Undecided as u:
                for o in uobs:
                    results.append({"name": o["name"], "backend": "verus", "unit": unit, "fn": o["fn"], "kind": o.get("kind", "V"),
                                    "bounded": o["bounded"], "fns": o["fns"], "desc": o["desc"], "verdict": "undecided", "reason": str(u)})
        # ---------- Kani ----------
        if kobs:
            for f in sorted(set([o["file"] for o in kobs] + [n for o in kobs for n in o["needs"]])):
                scan_files.append(os.path.join(CONTRACTS, "kani", "harness", f))
            scan_files.append(os.path.join(CONTRACTS, "kani", "verif_support.rs"))
            try:
                meta["injected"] = inject.apply(sc, reg, kobs)
                kres, kmeta = kani_run.run(sc, kobs)
                meta["kani"] = {k: v for k, v in kmeta.items() if k != "output"}
                n_playback = 0
                for o in kobs:
                    kr = kres[o["name"]]
                    r = {"name": o["name"], "backend": "kani", "harness": kr["harness"], "kind": o.get("kind", "KS"),
                         "bounded": o["bounded"], "fns": o["fns"], "desc": o["desc"], "verdict": kr["verdict"],
                         "reason": kr["reason"], "time_s": kr["time_s"], "checks": kr["checks"],
                         "covers": "%d/%d" % (kr["covers_satisfied"], kr["covers_total"]), "failed": kr["failed"]}
                    if kr["verdict"] == "refuted":
                        r["verifier_output"] = kr["raw"][-6000:]
                        n_playback += 1
                        test, vals = kani_run.playback(sc, o) if n_playback <= 2 else (None, [])
                        r["playback_test"] = test
                        r["counterexample"] = vals
                    results.append(r)
            except Undecided as u:
                for o in kobs:
                    results.append({"name": o["name"], "backend": "kani", "kind": o.get("kind", "KS"), "bounded": o["bounded"],
                                    "fns": o["fns"], "desc": o["desc"], "verdict": "undecided", "reason": str(u)})
    return results, meta, scan_files, time.time() - t0, (kobs, vobs)


def _excerpt(stderr, fn, ranges):
    out = []
    for blk in re.split(r"\n(?=error|note)", stderr):
        m = re.search(r"--> [^:\n]+:(\d+):", blk)
        if m and verus_run.attribute(ranges, int(m.group(1))) in (fn, fn.split("::")[-1]):
            out.append(blk)
    return "\n".join(out)[-4000:]


def main(argv=None):
    ap = argparse.ArgumentParser(prog="check")
    ap.add_argument("prop")
    ap.add_argument("--tier", default=os.environ.get("VERIF_TIER", "quick"), choices=["quick", "thorough"])
    ap.add_argument("--replay")
    ap.add_argument("--only")
    ap.add_argument("--no-evidence", action="store_true")
    a = ap.parse_args(argv)
    seed = int(os.environ.get("VERIF_SEED", "0") or 0)
    prop = a.prop
    only = a.only.split(",") if a.only else None
    replay_mode = False
    if a.replay:
        with open(a.replay) as f:
            rp = json.load(f)
        prop = rp["property"]
        only = [rp["obligation"]]
        a.tier = "thorough"
        replay_mode = True
        a.no_evidence = True
        print("replaying obligation %s of %s on the current tree of /repo" % (rp["obligation"], prop))
    results, meta, scan_files, wall, (kobs, vobs) = decide(prop, a.tier, only, seed)
    findings = load_findings()
    violations = []
    known = []
    undecided = []
    for r in results:
        if r["verdict"] == "refuted":
            descs = [f["description"] for f in r.get("failed", [])] or [r["reason"]]
            hit = None
            for kf in findings.get("findings", []):
                if kf["property"] == prop and kf["obligation"] == r["name"] and all(re.search(kf["match"], d) for d in descs):
                    hit = kf
                    break
            if hit:
                known.append((r, hit))
            else:
                violations.append(r)
        elif r["verdict"] == "undecided":
            undecided.append(r)
    os.makedirs(REPLAY, exist_ok=True)
    lines = []
    for r, kf in known:
        lines.append("KNOWN-FINDING: property=%s %s" % (prop, kf["what"]))
    for r in violations:
        path = os.path.join(REPLAY, "%s-%s.json" % (prop, r["name"]))
        rp = {"property": prop, "obligation": r["name"], "backend": r["backend"], "functions": r["fns"],
              "contract": r["desc"], "failed_checks": r.get("failed", []), "reason": r["reason"],
              "counterexample": r.get("counterexample"), "playback_test": r.get("playback_test"),
              "verifier_output": r.get("verifier_output", ""), "repo_state": repo_head(),
              "replay_cmd": "/verif/bin/check %s --replay %s" % (prop, path),
              "note": ("counterexample values are the little-endian bytes of each kani::any() in harness order; "
                       "replay re-runs this obligation against the real code of the current tree"
                       if r["backend"] == "kani" else
                       "Verus gives no model: the failed obligation and the verifier output are recorded instead of a failing input")}
        if not replay_mode:
            write_json(path, rp)
        has_cex = bool(r.get("counterexample"))
        lines.append("VIOLATION property=%s replay=%s%s" % (prop, path, "" if has_cex else " no-failing-input-found"))
        log("  failed obligation: %s [%s] on %s: %s" % (r["name"], r["backend"], ", ".join(r["fns"]), r["reason"]))
    for r in undecided:
        log("UNDECIDED obligation %s [%s]: %s" % (r["name"], r["backend"], r["reason"][:2000]))

    proved = [r for r in results if r["verdict"] == "discharged" and not r["bounded"]]
    bounded = [r for r in results if r["verdict"] == "discharged" and r["bounded"]]
    if not a.no_evidence:
        reg_trusted = []
        for o in kobs + vobs:
            for t in o["trusted"]:
                if t not in reg_trusted:
                    reg_trusted.append(t)
        fns = sorted(set(f for r in results for f in r["fns"]))
        solver_s = sum((r.get("time_s") or 0) for r in results)
        ev = {
            "property_id": prop,
            "tier": a.tier,
            "seed": seed,
            "level": "proof",
            "coverage": {
                "obligations": len(results),
                "discharged": len(proved) + len(bounded),
                "discharged_unbounded": len(proved),
                "discharged_bounded_standins": len(bounded),
                "refuted": len(violations) + len(known),
                "undecided": len(undecided),
                "checker_cmd": "/verif/bin/check %s --tier %s  (cargo kani -Z function-contracts -Z stubbing on the annotated scratch copy of /repo; "
                               "verus <unit>.rs on functions extracted from the same copy)" % (prop, a.tier),
                "trusted_base": reg_trusted + scan_trusted(scan_files),
                "functions_under_contract": fns,
                "safety_checks": sum(r.get("checks", 0) or 0 for r in results if r["backend"] == "kani"),
                "solver_time_s": round(solver_s, 2),
                "backends": sorted(set(("kani/cbmc(cadical)" if r["backend"] == "kani" else "verus/z3") for r in results)),
                "bounded_obligations": [{"name": r["name"], "bound": r["bounded"]} for r in results if r["bounded"]],
                "samples": [{k: r.get(k) for k in ("name", "backend", "kind", "fns", "desc", "verdict", "reason", "time_s", "checks", "covers", "bounded")}
                            for r in results],
                "extraction": meta["extraction"],
                "injected": meta["injected"],
                "kani_run": meta["kani"],
                "verus_units": meta["verus_units"],
                "repo_state": repo_head(),
                "known_findings_reported": [kf["what"] for _, kf in known],
            },
            "assumptions": GLOBAL_ASSUMPTIONS,
            "wall_s": round(wall, 2),
            "violations": len(violations),
        }
        write_json(os.path.join(EVIDENCE, prop + ".json"), ev)
    for ln in lines:
        print(ln)
    print("%s tier=%s obligations=%d discharged=%d (of which bounded stand-ins %d) refuted=%d known=%d undecided=%d wall=%.0fs" % (
        prop, a.tier, len(results), len(proved) + len(bounded), len(bounded), len(violations), len(known), len(undecided), wall))
    if violations:
        return 1
    if undecided:
        return 2
    return 0


if __name__ == "__main__":
    sys.exit(main())
